from vivarium.core.engine import Engine
from vivarium.core.process import Process

class P(Process):
    defaults={'time_step':1.0,'tag':'old'}
    calls=[]
    def ports_schema(self): return {'x': {'x': {'_default':0,'_updater':'accumulate'}}}
    def next_update(self, ts, states):
        P.calls.append(self.parameters['tag']); return {'x':{'x':1}}

class Actor(Process):
    defaults={'time_step':1.0}
    def __init__(self,p=None): super().__init__(p); self.n=0
    def ports_schema(self): return {'src': {'*': {}}, 'dst': {'*': {}}}
    def next_update(self, ts, states):
        self.n+=1
        if self.n==2:
            return {'src': {'_move': [{'source': ('a',), 'target': ('dst',)}],
                '_generate': [{'key':'a','processes':{'p':P({'tag':'new'})},'topology':{'p':{'x':('x',)}},'initial_state':{'x':{'x':0}}}]}}
        return {}
e=Engine(processes={'left':{'a':{'p':P()}},'actor':Actor()}, topology={'left':{'a':{'p':{'x':('x',)}}},'actor':{'src':('left',),'dst':('right',)}})
e.update(5)
import collections
print(collections.Counter(P.calls))
print(e.processes.keys(), e.processes.get('left'), list(e.process_paths))
print(e.state.get_processes())
