"""Own PRNG (splitmix64).  Nothing in here touches `random`, `numpy.random`
or a clock, so the code under test and the simulator never share generator
state, and logging can never perturb a schedule."""

M64 = (1 << 64) - 1


def _mix(z):
    z = (z + 0x9E3779B97F4A7C15) & M64
    z = ((z ^ (z >> 30)) * 0xBF58476D1CE4E5B9) & M64
    z = ((z ^ (z >> 27)) * 0x94D049BB133111EB) & M64
    return z ^ (z >> 31)


def hash_str(s):
    """Stable 64-bit FNV-1a hash of a string (no PYTHONHASHSEED)."""
    h = 0xCBF29CE484222325
    for b in s.encode('utf-8'):
        h ^= b
        h = (h * 0x100000001B3) & M64
    return h


def derive(*parts):
    """Derive a 64-bit seed from integers / strings."""
    h = 0x243F6A8885A308D3
    for p in parts:
        if isinstance(p, str):
            p = hash_str(p)
        h = _mix(h ^ (int(p) & M64))
    return h


class Rng:
    __slots__ = ('s',)

    def __init__(self, seed):
        self.s = int(seed) & M64

    def u64(self):
        self.s = (self.s + 0x9E3779B97F4A7C15) & M64
        z = self.s
        z = ((z ^ (z >> 30)) * 0xBF58476D1CE4E5B9) & M64
        z = ((z ^ (z >> 27)) * 0x94D049BB133111EB) & M64
        return z ^ (z >> 31)

    def below(self, n):
        """Uniform integer in [0, n)."""
        if n <= 1:
            return 0
        return self.u64() % n

    def rint(self, lo, hi):
        """Uniform integer in [lo, hi] inclusive."""
        return lo + self.below(hi - lo + 1)

    def chance(self, num, den=100):
        return self.below(den) < num

    def pick(self, seq):
        return seq[self.below(len(seq))]

    def shuffle(self, seq):
        seq = list(seq)
        for i in range(len(seq) - 1, 0, -1):
            j = self.below(i + 1)
            seq[i], seq[j] = seq[j], seq[i]
        return seq

    def sample(self, seq, k):
        return self.shuffle(seq)[:k]

    def fork(self, *parts):
        return Rng(derive(self.u64(), *parts))
