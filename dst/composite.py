"""Composite profile (C16).

(a) Operation history on shared mutable objects: a seeded sequence of
Composer.generate(path=...), Process.generate(path=...), Composite.merge(...)
(composites, loose parts, one template several times, at paths) and schema
overrides; after every operation *every* composite alive so far is compared
with a reference made of plain nested-dict union.
(b) Entry-point differential: one composite run through Engine(composite=...),
Engine(processes=..., ...) and Engine(store=composite.generate_store()), at
the root and embedded at a path, must give the same trajectory."""

import copy

from dst.rng import Rng, derive
from dst import harness, kernel
from dst.kernel import V, tval, leaves
from dst.rec import REC, HarnessError
from dst.wmodel import values_equal

PROFILE = 'composite'
UNIT = [1, 8]


# ---------------------------------------------------------------------------
# composer under test: a real Composer subclass generating scripted parties
# ---------------------------------------------------------------------------

def make_composer():
    from vivarium.core.composer import Composer
    from dst.parties import KProc, FStep

    class SComposer(Composer):
        defaults = {'procs': [], 'steps': [], 'opts': {'ovdef': None}}

        def generate_processes(self, config):
            out = {}
            # a nested configuration entry, given per generate() call: the default of a1
            ovdef = (config.get('opts') or {}).get('ovdef')
            for sp in config['procs']:
                params = {'spec': sp, 'name': sp['name']}
                if sp.get('_schema'):
                    params['_schema'] = copy.deepcopy(sp['_schema'])
                if ovdef is not None and not sp.get('shared_params') and not sp.get('raw_schema'):
                    params['_schema'] = union(params.get('_schema') or {}, {'acc': {'a1': {'_default': ovdef}}})
                if sp.get('shared_params'):
                    # the composer keeps one parameter dictionary per process and hands
                    # it to every process it builds from it (as a config dictionary does)
                    shared = self.__dict__.setdefault('_verif_shared', {})
                    params = shared.setdefault(sp['name'], params)
                if sp.get('raw_schema'):
                    from dst.parties import RawProc
                    out[sp['name']] = RawProc(params)
                else:
                    out[sp['name']] = KProc(params)
            for sp in config['steps']:
                if sp.get('where') == 'processes':
                    out[sp['name']] = FStep({'spec': sp, 'name': sp['name']})
            return out

        def generate_steps(self, config):
            return {sp['name']: FStep({'spec': sp, 'name': sp['name']})
                    for sp in config['steps'] if sp.get('where') != 'processes'}

        def generate_flow(self, config):
            return {sp['name']: [tuple(d) for d in sp['flow']]
                    for sp in config['steps'] if sp.get('flow') is not None}

        def generate_topology(self, config):
            topo = {}
            for sp in config['procs']:
                topo[sp['name']] = {'acc': ('acc',)}
            for sp in config['steps']:
                topo[sp['name']] = {'acc': ('acc',), 'tok': ('tok',)}
            return topo
    return SComposer


_SC = None


def SComposerClass():
    global _SC
    if _SC is None:
        _SC = make_composer()
    return _SC


# ---------------------------------------------------------------------------
# generation
# ---------------------------------------------------------------------------

def _unit_spec(r, tag, avars, proc_init=False):
    procs = []
    free = list(avars)        # at most one process supplies an initial value per variable
    for i in range(r.rint(1, 2)):
        procs.append({'name': '%sp%d' % (tag, i), 'vars': avars, 'fvars': [], 'probe': None,
                      'ts': {'mode': 'const', 'vals': [r.rint(1, 8)], 'unit': UNIT},
                      'cond': {'mode': 'none'}, 'noemit': [],
                      'writes': [[r.pick(avars), [r.rint(1, 99) for _ in range(2)]]],
                      'init_acc': ({free.pop(r.below(len(free))): r.rint(100, 200)}
                                   if (proc_init and free and r.chance(50)) else {})})
    if r.chance(25):
        # the first process hands out a schema object it keeps
        p0 = procs[0]
        p0['raw_schema'] = {'acc': {v: {'_default': 0, '_emit': True} for v in p0['vars']}}
    steps = []
    for i in range(r.rint(0, 2)):
        deps = [s for s in steps if r.chance(50)]
        steps.append({'name': '%ss%d' % (tag, i), 'cls': 'FStep', 'vars': avars, 'probe': None,
                      'flow': [[d['name']] for d in deps], 'reads': [d['name'] for d in deps],
                      'noemit': [], 'where': 'steps'})
    if steps and r.chance(30):
        # documented legacy style: every step comes out of generate_processes
        for sp in steps:
            sp['where'] = 'processes'
    if r.chance(50):
        # listing order is not dependency order
        steps = r.shuffle(steps)
    return {'procs': procs, 'steps': steps}


PATHS = [[], [], ['x'], ['x', 'y'], ['z']]


def gen_case(seed):
    r = Rng(seed)
    avars = ['a0', 'a1']
    units = {}
    proc_init = r.chance(12)      # processes with their own initial_state() (known finding territory)
    for tag in ('u', 'v', 'w'):
        units[tag] = _unit_spec(r, tag, avars, proc_init)
    if r.chance(40):
        # a schema override naming one process and one port variable (a
        # variable only that process declares, so that no other declaration
        # competes for the default)
        tag = r.pick(['u', 'v', 'w'])
        sp = r.pick(units[tag]['procs'])
        ov = 'ov_' + sp['name']
        sp['vars'] = list(sp['vars']) + [ov]
        units[tag]['override'] = {sp['name']: {'acc': {ov: {'_default': r.rint(300, 400)}}}}
    # flow-less (legacy) derivers that read each other, one delivered in the processes
    # dictionary and one in the steps dictionary: their order is that of the two
    # dictionaries, whichever entry point builds the engine (own stream)
    for tag in ('u', 'v', 'w'):
        rd = Rng(derive(seed, 'derivers', tag))
        st = units[tag]['steps']
        if len(st) >= 2 and rd.chance(35):
            for sp in st:
                sp['flow'] = None
            for i, sp in enumerate(st):
                sp['reads'] = [o['name'] for o in st if o is not sp]
                sp['where'] = 'processes' if (i % 2 == 0) == rd.chance(50) else 'steps'
            if len(set(sp['where'] for sp in st)) == 1:
                st[0]['where'] = 'processes'
                st[1]['where'] = 'steps'
    # a process whose parameter dictionary (with a `_schema` entry) is shared by every
    # process the composer builds from it (own stream: earlier seeds keep their cases)
    shared_units = []
    for tag in ('u', 'v', 'w'):
        rs = Rng(derive(seed, 'shared_params', tag))
        p0 = units[tag]['procs'][0]
        if rs.chance(25) and not p0.get('raw_schema'):
            sv = 'sv_' + p0['name']
            p0['vars'] = list(p0['vars']) + [sv]
            p0['_schema'] = {'acc': {sv: {'_default': rs.rint(50, 60)}}}
            p0['shared_params'] = True
            shared_units.append(tag)
    hist = []
    names = []
    n = 0

    def new(kind, **kw):
        nonlocal n
        nm = 'c%d' % n
        n += 1
        names.append(nm)
        hist.append(dict(op=kind, out=nm, **kw))
        return nm
    for i in range(r.rint(2, 7)):
        m = r.below(100)
        if m < 35 or len(names) < 2:
            new('generate', unit=r.pick(['u', 'v', 'w']), path=r.pick(PATHS))
        elif m < 45:
            tag = r.pick(['u', 'v', 'w'])
            new('process_generate', unit=tag, proc=0, path=r.pick(PATHS))
        elif m < 80:
            a, b = r.pick(names), r.pick(names)
            if a != b:
                hist.append({'op': 'merge', 'into': a, 'what': b, 'path': r.pick(PATHS)})
        elif m < 90:
            a = r.pick(names)
            tag = r.pick(['u', 'v', 'w'])
            hist.append({'op': 'merge_parts', 'into': a, 'unit': tag, 'path': r.pick(PATHS),
                         'state': {'acc': {r.pick(avars): r.rint(1, 50)}} if r.chance(50) else {}})
        elif m < 93:
            # the same step key merged again with a different dependency list: later wins
            gens = [h for h in hist if h['op'] == 'generate' and units[h['unit']]['steps']]
            if gens:
                g = r.pick(gens)
                st = r.pick(units[g['unit']]['steps'])
                others = [x['name'] for x in units[g['unit']]['steps'] if x['name'] != st['name']]
                newdeps = [[r.pick(others)]] if (others and r.chance(50)) else []
                hist.append({'op': 'merge_flow', 'into': g['out'], 'path': list(g['path']),
                             'flow': {st['name']: newdeps}})
        elif m < 96:
            a = r.pick(names)
            hist.append({'op': 'merge_state', 'into': a, 'path': r.pick(PATHS),
                         'state': {'acc': {r.pick(avars): r.rint(1, 50)}}})
        else:
            # a schema override on one composite, naming one process of one generated unit
            gens = [h for h in hist if h['op'] == 'generate']
            if gens:
                g = r.pick(gens)
                pn = units[g['unit']]['procs'][0]['name']
                hist.append({'op': 'override', 'into': g['out'], 'target': list(g['path']) + [pn],
                             'var': 'a0', 'default': r.rint(700, 800)})
    # a per-call configuration (a nested entry) for some generate() calls of a composer that
    # generates more than once (own stream)
    for tag in ('u', 'v', 'w'):
        gens = [h for h in hist if h['op'] == 'generate' and h['unit'] == tag]
        rc = Rng(derive(seed, 'call_cfg', tag))
        if len(gens) >= 2 and rc.chance(50):
            for g in gens[:-1]:
                if rc.chance(60):
                    g['call_cfg'] = {'opts': {'ovdef': rc.rint(900, 950)}}
    for tag in shared_units:
        gens = [h for h in hist if h['op'] == 'generate' and h['unit'] == tag]
        rs = Rng(derive(seed, 'shared_override', tag))
        if len(gens) >= 2 and rs.chance(70):
            # an override naming that process in one of the composites only
            g = gens[rs.below(len(gens))]
            hist.append({'op': 'override', 'into': g['out'],
                         'target': list(g['path']) + [units[tag]['procs'][0]['name']],
                         'var': 'a0', 'default': rs.rint(700, 800)})
    # entry-point differential
    run_unit = r.pick(['u', 'v', 'w'])
    ops = []
    for i in range(r.rint(1, 3)):
        u = r.rint(1, 20)
        ops.append(r.pick([['run_for', u, False], ['update', u]]))
    return {'profile': PROFILE, 'seed': seed, 'opts': {'unit': UNIT, 'precision': None, 't0': 0},
            'units': units, 'history': hist, 'run_unit': run_unit, 'embed': r.pick(PATHS),
            'init': {'acc': {v: r.rint(0, 30) for v in avars if r.chance(60)}},
            'ops': ops}


# ---------------------------------------------------------------------------
# (a) history
# ---------------------------------------------------------------------------

def mark(x):
    from vivarium.core.process import Process
    if isinstance(x, dict):
        return {k: mark(v) for k, v in x.items()}
    if isinstance(x, Process):
        import json as _json
        pid = REC.extra.setdefault('pid', {}).setdefault(id(x), len(REC.extra['pid']))
        # the overrides in force for this very object are part of what a composite "is"
        try:
            eff = _json.dumps(x.get_schema(), sort_keys=True, default=str)
        except Exception as e:      # pragma: no cover
            eff = 'ERR %r' % (e,)
        return '<P:%s:%d|%s|%s>' % (x.name, pid, _json.dumps(x.schema_override, sort_keys=True, default=str), eff)
    if isinstance(x, (list, tuple)):
        return [mark(v) for v in x]
    return x


def snapshot_composite(c):
    return {k: mark(c[k]) for k in ('processes', 'steps', 'flow', 'topology', 'state')}


def assoc_in(path, d):
    for k in reversed(path):
        d = {k: d}
    return d


def union(a, b):
    """Plain nested-dict union, later entries winning on equal keys."""
    out = copy.deepcopy(a)
    for k, v in b.items():
        if isinstance(v, dict) and isinstance(out.get(k), dict):
            out[k] = union(out[k], v)
        else:
            out[k] = copy.deepcopy(v)
    return out


def run_history(case):
    """Executes the operation history on real objects; after every operation
    records a snapshot of every composite alive."""
    from vivarium.core.composer import Composite
    harness.begin_run(0.0, seed=case.get('seed', 0))
    REC.active = False
    SC = SComposerClass()
    real = {}
    snaps = []
    exc = None
    composers = {}
    try:
        for i, h in enumerate(case['history']):
            try:
                if h['op'] == 'generate':
                    # one composer object per unit, generating several composites (as users do)
                    if h['unit'] not in composers:
                        u = case['units'][h['unit']]
                        cfg = {'procs': u['procs'], 'steps': u['steps']}
                        if u.get('override'):
                            cfg['_schema'] = copy.deepcopy(u['override'])
                        composers[h['unit']] = SC(cfg)
                    comp = composers[h['unit']].generate(
                        copy.deepcopy(h['call_cfg']) if h.get('call_cfg') else None, path=tuple(h['path']))
                    real[h['out']] = comp
                elif h['op'] == 'override':
                    ov = {h['target'][-1]: {'acc': {h['var']: {'_default': h['default']}}}}
                    for seg in reversed(h['target'][:-1]):
                        ov = {seg: ov}
                    real[h['into']].merge(schema_override=ov)
                elif h['op'] == 'process_generate':
                    from dst.parties import KProc
                    sp = case['units'][h['unit']]['procs'][h['proc']]
                    proc = KProc({'spec': sp, 'name': sp['name']})
                    d = proc.generate(path=tuple(h['path']))
                    real[h['out']] = Composite(d)
                elif h['op'] == 'merge':
                    real[h['into']].merge(composite=real[h['what']], path=tuple(h['path']))
                elif h['op'] == 'merge_parts':
                    u = case['units'][h['unit']]
                    c2 = SC({'procs': u['procs'], 'steps': u['steps']})
                    cfg = c2.config
                    real[h['into']].merge(
                        processes=c2.generate_processes(cfg), steps=c2.generate_steps(cfg),
                        flow=c2.generate_flow(cfg), topology=c2.generate_topology(cfg),
                        state=copy.deepcopy(h.get('state') or {}), path=tuple(h['path']))
                elif h['op'] == 'merge_state':
                    real[h['into']].merge(state=copy.deepcopy(h['state']), path=tuple(h['path']))
                elif h['op'] == 'merge_flow':
                    real[h['into']].merge(flow={k: [tuple(d) for d in v] for k, v in h['flow'].items()},
                                          path=tuple(h['path']))
            except Exception as e:
                import traceback
                exc = (i, harness.norm_exc(e), traceback.format_exc(limit=8))
                break
            snaps.append({nm: snapshot_composite(c) for nm, c in real.items()})
    finally:
        harness.end_run()
    return snaps, exc, real


def check_history(case, snaps, exc):
    """Reference: every composite is what the operations say, and nothing
    else - in particular merged-in composites stay as they were."""
    if exc is not None:
        return [V('C16', 'C16.history-exception', exc[1], 'operation %d raised: %s' % (exc[0], exc[2][-600:]))]
    model = {}
    overrides_of = {}
    for i, (h, snap) in enumerate(zip(case['history'], snaps)):
        if h['op'] in ('generate', 'process_generate'):
            # adopt the freshly generated composite (shape checked below)
            model[h['out']] = copy.deepcopy(snap[h['out']])
            err = check_generated(case, h, snap[h['out']])
            if err:
                return [err]
        elif h['op'] == 'merge':
            add = {k: assoc_in(h['path'], model[h['what']][k]) for k in model[h['what']]}
            model[h['into']] = {k: union(model[h['into']][k], add[k]) for k in add}
        elif h['op'] == 'merge_parts':
            # loose parts: adopt what the real merge put at the path for the new keys, union semantics
            into = model[h['into']]
            real_after = snap[h['into']]
            add = parts_tree(case, h, real_after)
            model[h['into']] = {k: union(into[k], add.get(k, {})) for k in into}
        elif h['op'] == 'merge_state':
            into = model[h['into']]
            into = dict(into)
            into['state'] = union(into['state'], assoc_in(h['path'], h['state']))
            model[h['into']] = into
        elif h['op'] == 'merge_flow':
            into = dict(model[h['into']])
            into['flow'] = union(into['flow'], assoc_in(h['path'], {k: [list(d) for d in v]
                                                                    for k, v in h['flow'].items()}))
            model[h['into']] = into
        elif h['op'] == 'override':
            # exactly the named process object changes (wherever it appears)
            node = snap[h['into']]['processes']
            for seg in h['target']:
                node = node.get(seg) if isinstance(node, dict) else None
            if not isinstance(node, str) or ('"%s": {"_default": %d}' % (h['var'], h['default'])) not in node:
                return [V('C16', 'C16.override', 'not-applied',
                          'after operation %d (%s) the named process reads %r' % (i, _desc(h), node))]
            pid = node.split('|')[0]
            # ... and keeps what earlier overrides (its `_schema` parameter, a composer's
            # override) set: overrides accumulate, they do not replace each other
            before = _find_marker(model, pid)
            if before is not None:
                import json as _json
                want_ov = union(_json.loads(before.split('|')[1]),
                                {'acc': {h['var']: {'_default': h['default']}}})
                got_ov = _json.loads(node.split('|')[1])
                if got_ov != want_ov:
                    return [V('C16', 'C16.override', 'earlier-override-lost',
                              'after operation %d (%s) the overrides of the named process are %r, expected %r' % (
                                  i, _desc(h), got_ov, want_ov))]
            model = {nm: _replace_marker(t, pid, node) for nm, t in model.items()}
            overrides_of.setdefault(h['into'], []).append(h['target'])
        if h['op'].startswith('merge') and overrides_of.get(h['into']):
            # a composite re-applies the overrides it holds to whatever process sits at the
            # named keys after a merge; process objects are shared between composites, so the
            # change shows wherever that object appears
            for target in overrides_of[h['into']]:
                node = snap[h['into']]['processes']
                for seg in target:
                    node = node.get(seg) if isinstance(node, dict) else None
                if isinstance(node, str):
                    pid = node.split('|')[0]
                    model = {nm: _replace_marker(t, pid, node) for nm, t in model.items()}
        for nm, exp in model.items():
            got = snap[nm]
            if not same_tree(got, exp):
                changed = 'merged-in composite' if (h['op'].startswith('merge') and nm != h.get('into')) else 'target'
                if h['op'] == 'override':
                    return [V('C16', 'C16.override', 'leaked',
                              'after operation %d (%s) another process changed too: composite %s is %r, expected %r' % (
                                  i, _desc(h), nm, _diff(got, exp)[0], _diff(got, exp)[1]))]
                return [V('C16', 'C16.composite-changed' if changed != 'target' else 'C16.merge-result',
                          changed.replace(' ', '-'),
                          'after operation %d (%s) composite %s is %r, expected %r' % (
                              i, _desc(h), nm, _diff(got, exp)[0], _diff(got, exp)[1]))]
    return []


def _find_marker(t, pid):
    if isinstance(t, dict):
        for v in t.values():
            m = _find_marker(v, pid)
            if m is not None:
                return m
    elif isinstance(t, list):
        for v in t:
            m = _find_marker(v, pid)
            if m is not None:
                return m
    elif isinstance(t, str) and t.startswith('<P:') and t.split('|')[0] == pid:
        return t
    return None


def _replace_marker(t, pid, new):
    if isinstance(t, dict):
        return {k: _replace_marker(v, pid, new) for k, v in t.items()}
    if isinstance(t, list):
        return [_replace_marker(v, pid, new) for v in t]
    if isinstance(t, str) and t.split('|')[0] == pid:
        return new
    return t


def _desc(h):
    return ' '.join('%s=%s' % (k, v) for k, v in h.items() if k != 'state')


def prune(x):
    if isinstance(x, dict):
        out = {}
        for k, v in x.items():
            pv = prune(v)
            if isinstance(pv, dict) and not pv:
                continue
            out[k] = pv
        return out
    return x


def same_tree(a, b):
    # empty dictionaries left behind by assoc_in at a path carry no content
    return prune(strip_ids(a)) == prune(strip_ids(b))


def strip_ids(x):
    if isinstance(x, dict):
        return {k: strip_ids(v) for k, v in x.items()}
    if isinstance(x, list):
        return [strip_ids(v) for v in x]
    if isinstance(x, str) and x.startswith('<P:'):
        head, _, ov = x.partition('|')
        return head.rsplit(':', 1)[0] + '|' + ov
    return x


def ids_consistent(a, b):
    return True


def _diff(a, b, path=()):
    if isinstance(a, dict) and isinstance(b, dict):
        for k in list(a) + [k for k in b if k not in a]:
            if k not in a:
                return ('%s: <absent>' % '/'.join(path + (k,)), strip_ids(b[k]))
            if k not in b:
                return ('%s: %r' % ('/'.join(path + (k,)), strip_ids(a[k])), '<absent>')
            if strip_ids(a[k]) != strip_ids(b[k]):
                return _diff(a[k], b[k], path + (k,))
    return ('%s: %r' % ('/'.join(path), strip_ids(a)), strip_ids(b))


def check_generated(case, h, snap):
    """A composite generated at a path holds everything under that path."""
    path = h['path']
    u = case['units'][h['unit']]
    if h['op'] == 'generate':
        pn = sorted([p['name'] for p in u['procs']] + [s['name'] for s in u['steps'] if s.get('where') == 'processes'])
        sn = sorted([s['name'] for s in u['steps'] if s.get('where') != 'processes'])
        fn = sorted([s['name'] for s in u['steps'] if s.get('flow') is not None])
        tn = sorted([p['name'] for p in u['procs']] + [s['name'] for s in u['steps']])
    else:
        sp = u['procs'][h['proc']]
        pn, sn, fn, tn = [sp['name']], [], [], [sp['name']]
    for key, want in (('processes', pn), ('steps', sn), ('flow', fn), ('topology', tn)):
        node = snap[key]
        for seg in path:
            if not isinstance(node, dict) or list(node.keys()) != [seg]:
                return V('C16', 'C16.generate-at-path', key,
                         'generate(path=%r): %s is %r, expected everything under the path' % (path, key, strip_ids(snap[key])))
            node = node[seg]
        if sorted(node.keys()) != want:
            return V('C16', 'C16.generate-at-path', key,
                     'generate(path=%r): %s holds %r under the path, expected %r' % (path, key, sorted(node.keys()), want))
    if h['op'] == 'generate':
        # the configuration given to this call - and only to this call - is in force
        import json as _json
        want_ov = ((h.get('call_cfg') or {}).get('opts') or {}).get('ovdef')
        node = snap['processes']
        for seg in path:
            node = node[seg]
        for sp in u['procs']:
            if sp.get('shared_params') or sp.get('raw_schema'):
                continue
            mk = node.get(sp['name'])
            if not isinstance(mk, str):
                continue
            got = ((_json.loads(mk.split('|')[1]).get('acc') or {}).get('a1') or {}).get('_default')
            if got != want_ov:
                return V('C16', 'C16.generate-config', 'leaked' if want_ov is None else 'not-applied',
                         'generate(%r, path=%r): process %s has the a1 default %r, the configuration of this '
                         'call says %r' % (h.get('call_cfg'), path, sp['name'], got, want_ov))
    return None


def parts_tree(case, h, real_after):
    """The tree the loose parts of a merge_parts operation contribute (names
    from the unit spec; process markers taken from the real result)."""
    u = case['units'][h['unit']]
    out = {'processes': {}, 'steps': {}, 'flow': {}, 'topology': {}, 'state': {}}

    def real_at(key, name):
        node = real_after[key]
        for seg in h['path']:
            node = (node or {}).get(seg) if isinstance(node, dict) else None
        return (node or {}).get(name) if isinstance(node, dict) else None
    for p in u['procs']:
        out['processes'][p['name']] = real_at('processes', p['name'])
        out['topology'][p['name']] = {'acc': ['acc']}
    for s in u['steps']:
        where = 'processes' if s.get('where') == 'processes' else 'steps'
        out[where][s['name']] = real_at(where, s['name'])
        out['topology'][s['name']] = {'acc': ['acc'], 'tok': ['tok']}
        if s.get('flow') is not None:
            out['flow'][s['name']] = [list(d) for d in s['flow']]
    out['state'] = copy.deepcopy(h.get('state') or {})
    return {k: assoc_in(h['path'], v) for k, v in out.items()}


# ---------------------------------------------------------------------------
# (b) entry points
# ---------------------------------------------------------------------------

def _fresh_composite(case, path):
    from vivarium.core.composer import Composite
    SC = SComposerClass()
    u = case['units'][case['run_unit']]
    cfg = {'procs': u['procs'], 'steps': u['steps']}
    if u.get('override'):
        cfg['_schema'] = copy.deepcopy(u['override'])
    comp = SC(cfg).generate(path=tuple(path))
    comp.merge(state=copy.deepcopy(case['init']), path=tuple(path))
    return comp


def run_entry(case, entry, path):
    from vivarium.core.engine import Engine
    run = harness.Run()
    harness.begin_run(0.0, seed=case.get('seed', 0))
    try:
        comp = _fresh_composite(case, path)
        if entry == 'composite':
            kw = dict(composite=comp)
        elif entry == 'parts':
            kw = dict(processes=comp['processes'], steps=comp['steps'], flow=comp['flow'],
                      topology=comp['topology'], initial_state=copy.deepcopy(comp['state']))
        else:
            kw = dict(store=comp.generate_store())
        eng = harness.make_engine(run, 3000000, **kw)
        if eng is not None:
            harness.drive(run, eng, case['ops'], UNIT, lambda op: 3000000)
    finally:
        harness.end_run()
    return harness.finish(run)


def check_reuse(case):
    """A composite that an engine was built from, with an initial state given to
    the engine, is afterwards still the composite it was: an engine built from it
    (or from its parts, or its store) later does not start from that state."""
    from vivarium.core.engine import Engine
    SC = SComposerClass()
    u = case['units'][case['run_unit']]
    harness.begin_run(0.0, seed=case.get('seed', 0))
    REC.active = False
    try:
        cfg = {'procs': u['procs'], 'steps': u['steps']}
        if u.get('override'):
            cfg['_schema'] = copy.deepcopy(u['override'])
        comp = SC(cfg).generate()
        before = copy.deepcopy(comp['state'])
        given = {'acc': {'a0': 4321}}
        try:
            Engine(composite=comp, initial_state=copy.deepcopy(given), emitter={'type': 'null'},
                   display_info=False, progress_bar=False)
        except Exception:       # judged by the entry-point differential
            return []
        after = comp['state']
        if after != before:
            return [V('C16', 'C16.entry-reuse', 'state-written-back',
                      'Engine(composite=c, initial_state=%r) left c with the state %r (it was %r): a later '
                      'engine built from c starts from it' % (given, after, before))]
    finally:
        harness.end_run()
    return []


def rerooted_rows(run, path):
    out = []
    for e in run.log:
        if e['k'] == 'EMIT' and e.get('table') == 'history':
            row = {k: v for k, v in e['row'].items() if k != 'time'}
            for seg in path:
                row = (row or {}).get(seg) or {}
            out.append((e['row'].get('time'), row))
    return out


def check_entries(case, runs):
    base_key = ('composite', ())
    base = runs[base_key]
    if base.exc is not None:
        return [V('C16', 'C16.entry-exception', 'composite', 'Engine(composite=...) raised: %s' % base.exc[2][-600:])]
    a = rerooted_rows(base, ())
    for (entry, path), run in runs.items():
        if (entry, path) == base_key:
            continue
        if run.exc is not None:
            return [V('C16', 'C16.entry-exception', entry + ('-embedded' if path else ''),
                      'entry %s at path %r raised while Engine(composite=...) at the root runs: %s' % (
                          entry, path, run.exc[2][-600:]))]
        b = rerooted_rows(run, path)
        if [t for t, _ in a] != [t for t, _ in b]:
            return [V('C16', 'C16.entry-differential', entry + ('-embedded' if path else ''),
                      'row times differ between Engine(composite=) at the root and entry %s at %r: %r vs %r' % (
                          entry, path, [t for t, _ in a][:8], [t for t, _ in b][:8]))]
        first = True
        for (ta, ra), (tb, rb) in zip(a, b):
            la, lb = leaves(ra), leaves(rb)
            la = {k: v for k, v in la.items() if v != {}}
            lb = {k: v for k, v in lb.items() if v != {}}
            if la != lb:
                diff = sorted(k for k in set(la) | set(lb) if la.get(k) != lb.get(k))
                if entry == 'store' and first and _only_process_initial_state(case, diff, lb):
                    return [V('C16', 'C16.entry-differential', 'store-process-initial-state',
                              'Engine(store=composite.generate_store()) starts from the processes\' own '
                              'initial_state() values, Engine(composite=...) does not: %r' % (
                                  [(k, la.get(k), lb.get(k)) for k in diff[:3]],))]
                return [V('C16', 'C16.entry-differential', entry + ('-embedded' if path else ''),
                          'row at %r differs between Engine(composite=) at the root and entry %s at %r: %r' % (
                              ta, entry, path, [(k, la.get(k), lb.get(k)) for k in diff[:3]]))]
            first = False
    return []


def _only_process_initial_state(case, diff, store_row):
    """Is the whole difference explained by the known finding: variables for
    which a process of the composite supplies initial_state(), holding exactly
    that value in the store-built engine (steps' tokens follow from them)?"""
    u = case['units'][case['run_unit']]
    given = {}
    for p in u['procs']:
        for v, val in (p.get('init_acc') or {}).items():
            given[('acc', v)] = val
    if not given:
        return False
    explicit = set(('acc', v) for v in (case['init'].get('acc') or {}))
    for k in diff:
        if k[0] == 'tok':
            continue
        if k not in given or k in explicit or store_row.get(k) != given[k]:
            return False
    return True


def check_override(case, runs):
    """Schema overrides reach exactly the process and port they name."""
    u = case['units'][case['run_unit']]
    ov = u.get('override')
    if not ov:
        return []
    run = runs[('composite', ())]
    if run.exc is not None:
        return []
    (pname, ports), = ov.items()
    (var, sch), = ports['acc'].items()
    want = sch['_default']
    given = (case['init'].get('acc') or {})
    first = None
    for e in run.log:
        if e['k'] == 'EMIT' and e.get('table') == 'history':
            first = e
            break
    if first is None:
        return []
    val = ((first['snap'] or {}).get('acc') or {}).get(var)
    if var not in given and val != want:
        return [V('C16', 'C16.override', 'not-applied',
                  'schema override %r: %s starts at %r, expected the overriding default %r' % (ov, var, val, want))]
    # the override reaches exactly the process it names: nobody else starts
    # declaring (hence seeing) the overridden variable
    specs = {sp['name']: sp for sp in u['procs'] + u['steps']}
    for e in run.log:
        if e['k'] in ('POLL', 'NU', 'STEPNU'):
            sp = specs.get(e['uid'].split('#')[0])
            if sp is None:
                continue
            seen = sorted(((e.get('view') or {}).get('acc') or {}).keys())
            if seen != sorted(sp['vars']):
                return [V('C16', 'C16.override', 'leaked',
                          'schema override %r: %s sees variables %r, it declares %r' % (
                              ov, e['uid'], seen, sorted(sp['vars'])), e['seq'])]
    acc = (first['snap'] or {}).get('acc') or {}
    for v, val_ in acc.items():
        if v != var and v not in given and val_ == want:
            return [V('C16', 'C16.override', 'leaked',
                      'schema override %r changed %s as well' % (ov, v))]
    return []


def validate(case):
    if not case['history'] or not case['ops']:
        raise HarnessError('empty case')
    names = set()
    for h in case['history']:
        if h['op'] in ('generate', 'process_generate'):
            names.add(h['out'])
        elif h['op'] == 'merge_flow':
            if h['into'] not in names:
                raise HarnessError('merge into a composite that does not exist yet')
        elif h['op'] == 'override':
            if h['into'] not in names:
                raise HarnessError('override on a composite that does not exist yet')
            g = [x for x in case['history'] if x.get('out') == h['into']]
            if not g or g[0]['op'] != 'generate' or list(g[0]['path']) != list(h['target'][:-1]):
                raise HarnessError('override target does not match the generated composite')
            if h['target'][-1] not in [p['name'] for p in case['units'][g[0]['unit']]['procs']]:
                raise HarnessError('override names no process')
        else:
            if h['into'] not in names or (h['op'] == 'merge' and h['what'] not in names):
                raise HarnessError('history refers to a composite that does not exist yet')
            if h['op'] == 'merge' and h['into'] == h['what']:
                raise HarnessError('self merge')
    for op in case['ops']:
        if op[1] < 1:
            raise HarnessError('zero interval')
    for u in case['units'].values():
        seen = set()
        for p in u['procs']:
            if any(v < 1 for v in p['ts']['vals']) or not p['ts']['vals']:
                raise HarnessError('bad timestep')
            for v in (p.get('init_acc') or {}):
                if v not in p['vars'] or v in seen:
                    raise HarnessError('conflicting or undeclared process initial state')
                seen.add(v)
        if not u['procs']:
            raise HarnessError('unit without processes')


def evaluate(case, prop=None):
    validate(case)
    snaps, exc, _ = run_history(case)
    vs = check_history(case, snaps, exc)
    probes = {'history-ops': len(snaps)}
    executions = 1
    runs = {}
    if not vs:
        for entry in ('composite', 'parts', 'store'):
            runs[(entry, ())] = run_entry(case, entry, ())
            executions += 1
        emb = tuple(case.get('embed') or ())
        if emb:
            runs[('composite', emb)] = run_entry(case, 'composite', emb)
            runs[('store', emb)] = run_entry(case, 'store', emb)
            executions += 2
            probes['embedded'] = 1
        vs += check_entries(case, runs)
        vs += check_override(case, runs)
        probes['entry-differential'] = 1
        if not vs:
            vs += check_reuse(case)
            probes['composite-reuse'] = 1
    merges = sum(1 for h in case['history'] if h['op'].startswith('merge'))
    if merges >= 2:
        probes['merge-after-merge'] = 1
    import hashlib
    hsh = hashlib.blake2b(repr([(h['op'], h.get('path'), h.get('into'), h.get('what')) for h in case['history']]).encode(),
                          digest_size=8)
    base = runs.get(('composite', ()))
    return {
        'violations': vs, 'probes': probes, 'nontrivial': merges >= 1,
        'shape': int.from_bytes(hsh.digest(), 'big') ^ (kernel.shape_of(base.log) if base else 0),
        'events': sum(len(r.log) for r in runs.values()),
        'sim_seconds': (base.log[-1]['T'] if base and base.log else 0),
        'faults': {}, 'executions': executions,
        'digest': base.digest if base else 'history-only',
    }
