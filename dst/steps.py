"""Steps profile (C05): random flow DAGs, legacy derivers, nesting, steps
that delete or generate compartments holding other steps.  Built on the
kernel profile: the processes, driver ops and the kernel oracles ride along."""

from dst.rng import Rng, derive
from dst import harness, kernel
from dst.kernel import V, tval, leaves

PROFILE = 'steps'


def gen_case(seed):
    case = kernel.gen_case(derive(seed, 'base'))
    k_ = 0
    while not case['procs']:
        k_ += 1
        case = kernel.gen_case(derive(seed, 'base', k_))
    case['profile'] = PROFILE
    case['seed'] = seed
    r = Rng(derive(seed, 'steps'))
    avars = [v for v in case['procs'][0]['vars'] if not v.startswith('o')]
    # keep runs short: step phases are the expensive part
    nflow = r.pick([1, 2, 2, 3, 3, 4, 5])
    nder = r.pick([0, 0, 1, 1, 2, 3])
    pedge = r.pick([20, 40, 60, 90])
    places = [[], [], ['world', 'c0'], ['world', 'c1'], ['world', 'c0', 'sub']]
    if r.chance(30):
        places = [[]]
    steps = []
    for i in range(nflow):
        name = 's%d' % i
        parent = r.pick(places)
        cands = [s for s in steps if s['flow'] is not None
                 and s['path'][:len(parent)] == parent]
        deps = [s for s in cands if r.chance(pedge)]
        steps.append({
            'name': name, 'cls': 'FStep', 'vars': avars, 'path': parent + [name],
            'where': r.pick(['steps', 'steps', 'steps', 'processes']),
            'flow': [s['path'][len(parent):] for s in deps],
            'reads': [s['name'] for s in deps], 'noemit': []})
    ders = []
    for i in range(nder):
        name = 'q%d' % i
        parent = r.pick(places)
        ders.append({
            'name': name, 'cls': 'FStep', 'vars': avars, 'path': parent + [name],
            'where': r.pick(['steps', 'processes']), 'flow': None,
            'reads': [], 'noemit': []})
    for d in ders:
        d['reads'] = [o['name'] for o in ders if o is not d]
    allsteps = ders + steps if r.chance(50) else steps + ders
    if r.chance(50):
        allsteps = r.shuffle(allsteps)
        # keep dependency order irrelevant: flow is by name, listing is free
    # structural actors (root-level flow steps in the first generations)
    comps = sorted(set(tuple(s['path'][:2]) for s in allsteps if len(s['path']) > 2))
    roots = [s for s in steps if len(s['path']) == 1]
    if comps and roots and r.chance(35):
        killer = r.pick(roots)
        # only compartments no outside step depends on may be deleted
        def safe(comp):
            inside = [s['name'] for s in allsteps if tuple(s['path'][:2]) == comp]
            for s in allsteps:
                if tuple(s['path'][:2]) != comp and any(x in inside for x in s['reads']):
                    return False
            return True
        among = [c[1] for c in comps if safe(c)]
        if among:
            killer['kill'] = {'at': r.rint(0, 4), 'pick': r.below(4), 'among': among}
    # a flow-less deriver may delete compartments as well - also one that holds derivers
    # declared before it (own stream: the cases of earlier seeds keep their shape)
    rk = Rng(derive(seed, 'deriver_kill'))
    root_ders = [s for s in ders if len(s['path']) == 1]
    if comps and root_ders and not any(s.get('kill') for s in allsteps) and rk.chance(40):
        def safe_flow(comp):
            inside = [s['name'] for s in allsteps if tuple(s['path'][:2]) == comp]
            return not any(tuple(s['path'][:2]) != comp and s['flow'] is not None
                           and any(x in inside for x in s['reads']) for s in allsteps)
        among = [c[1] for c in comps if safe_flow(c)]
        if among:
            rk.pick(root_ders)['kill'] = {'at': rk.rint(0, 4), 'pick': rk.below(4), 'among': among}
    if roots and r.chance(30):
        g = r.pick(roots)
        if not g.get('kill'):
            if r.chance(40):
                # flow-less derivers created at run time: sequential, in
                # declaration order, after the existing ones
                gsteps = [{'name': 'g0', 'cls': 'FStep', 'vars': avars, 'flow': None,
                           'reads': [], 'noemit': []},
                          {'name': 'g1', 'cls': 'FStep', 'vars': avars, 'flow': None,
                           'reads': ['g0'], 'noemit': []}]
                if r.chance(40):
                    gsteps.append({'name': 'g2', 'cls': 'FStep', 'vars': avars, 'flow': None,
                                   'reads': ['g0', 'g1'], 'noemit': []})
            else:
                gsteps = [{'name': 'g0', 'cls': 'FStep', 'vars': avars, 'flow': [],
                           'reads': [], 'noemit': []}]
                if r.chance(50):
                    gsteps.append({'name': 'g1', 'cls': 'FStep', 'vars': avars,
                                   'flow': [['g0']], 'reads': ['g0'], 'noemit': []})
            g['gen'] = {'at': r.rint(0, 3), 'key': 'gen', 'steps': gsteps}
    # watchers: steps that depend on a structural step look at the compartments
    actors_ = [sp['name'] for sp in allsteps if sp.get('kill') or sp.get('gen')]
    for sp in allsteps:
        if sp['flow'] is not None and not (sp.get('kill') or sp.get('gen')) and len(sp['path']) == 1 \
                and any(a_ in sp['reads'] for a_ in actors_) and r.chance(80):
            sp['watch'] = True
    if actors_ and r.chance(50):
        # make sure some step depends on the structural step and watches
        cands_ = [sp for sp in steps if len(sp['path']) == 1 and not (sp.get('kill') or sp.get('gen'))
                  and sp['name'] > actors_[0] and actors_[0] in [x['name'] for x in steps]]
        if cands_:
            w_ = r.pick(cands_)
            if actors_[0] not in w_['reads'] and specs_root(steps, actors_[0]):
                w_['reads'] = list(w_['reads']) + [actors_[0]]
                w_['flow'] = list(w_['flow']) + [[actors_[0]]]
            w_['watch'] = True
    for sp in allsteps:
        sp['noemit'] = case['procs'][0].get('noemit') or []
        for gs in (sp.get('gen') or {}).get('steps', []):
            gs['noemit'] = sp['noemit']
    if any(sp.get('gen') for sp in allsteps):
        # a party generated later re-declares its variables (emit flag
        # included); store_schema overrides are only modelled for static runs
        case['store_schema'] = None
    case['steps'] = allsteps
    # shorter driver: phases dominate cost
    case['ops'] = case['ops'][:4]
    return case


def specs_root(steps, name):
    return any(sp['name'] == name and len(sp['path']) == 1 for sp in steps)


def kernel_fix_ops(case):
    """Re-establish on-grid ends after truncating the op list."""
    opts = case['opts']
    p = opts.get('precision')
    if p is None:
        return
    unit = opts['unit']
    cur = tval(opts.get('t0', 0), unit)
    for op in case['ops']:
        for _ in range(60):
            end = cur + tval(op[1], unit)
            if end == round(end, p):
                break
            op[1] += 1
        cur = end


def validate(case):
    kernel.validate(case)


def evaluate(case, prop=None):
    validate(case)
    run = kernel.execute(case)
    stats = {}
    vs = kernel.check(case, run, stats)
    vs += check_c05(case, run, stats)
    vs += kernel.check_c12(case, run)
    vs += kernel.check_c04_instants(case, run, stats)
    executions = 1
    if prop in (None, 'C04') and kernel.commuting(case) and not run.budget_hit:
        run_p = kernel.execute(case, perm=derive(case['seed'], 'perm'))
        executions += 1
        vs += kernel.check_c04_perm(case, run, run_p)
    probes = stats.get('probes', {})
    keys = NONTRIVIAL.get(prop) or NONTRIVIAL['C05']
    return {
        'violations': vs, 'probes': probes,
        'nontrivial': any(probes.get(k) for k in keys),
        'shape': kernel.shape_of(run.log), 'events': len(run.log),
        'sim_seconds': (stats.get('final_T', 0) or 0) - tval(
            case['opts'].get('t0', 0), case['opts']['unit']),
        'faults': kernel.fault_counts(case, stats), 'executions': executions,
        'digest': run.digest,
    }


NONTRIVIAL = {
    'C05': ('dep-edge-checked', 'deriver-order-checked', 'same-generation-pair',
            'step-deleted-before-turn', 'step-created-in-phase'),
    'C04': ('shared-instant',),
}


# ---------------------------------------------------------------------------
# oracle: phase grammar
# ---------------------------------------------------------------------------

def _model_layers(live, specs, order):
    """Generation number of every live step: derivers one per layer in
    declaration order, then topological generations of the flow DAG."""
    gen = {}
    ders = [n for n in order if n in live and specs[n]['flow'] is None]
    for i, n in enumerate(ders):
        gen[n] = ('d', i)
    flow = [n for n in live if specs[n]['flow'] is not None]
    memo = {}

    def depth(n, seen=()):
        if n in memo:
            return memo[n]
        ds = [d for d in specs[n]['reads'] if d in live and specs[d]['flow'] is not None]
        memo[n] = 0 if not ds else 1 + max(depth(d) for d in ds)
        return memo[n]
    for n in flow:
        gen[n] = ('f', depth(n))
    return gen


def check_c05(case, run, stats=None):
    stats = stats if stats is not None else {}
    probes = stats.setdefault('probes', {})

    def probe(name, n=1):
        probes[name] = probes.get(name, 0) + n

    out = []
    specs = {}
    for sp in case.get('steps', []):
        specs[sp['name']] = sp
    if not specs:
        return out
    procnames = set(sp['name'] for sp in case['procs'])
    order_p = list(run.extra.get('deriver_order_processes') or [])
    order_s = list(run.extra.get('deriver_order_steps') or [])
    comp_of = {}
    for n, sp in specs.items():
        comp_of[n] = tuple(sp['path'][:2]) if len(sp['path']) > 2 else None
    live = set(specs)
    log = run.log
    phase = None
    batch_pending = False       # process updates applied, no phase yet
    in_construction = True
    construction_phase_done = False
    pending_struct = {}         # (uid, n) -> structural part of a step update
    nu_of = {}

    def close_phase(seq):
        nonlocal phase
        if phase is None:
            return None
        for n in sorted(phase['start']):
            if n in phase['ran']:
                continue
            if n in phase['deleted']:
                probe('step-deleted-before-turn')
                continue
            return V('C05', 'C05.step-missed', 'deriver' if specs[n]['flow'] is None else 'flow',
                     'step %s existed when the phase at %r began but did not run in it' % (n, phase['T']), seq)
        phase = None
        return None

    for ev in log:
        k = ev['k']
        seq = ev['seq']
        if k == 'STEPNU':
            name = ev['uid'].split('#')[0]
            if name not in specs:
                continue
            if phase is None:
                if in_construction:
                    if construction_phase_done:
                        out.append(V('C05', 'C05.phase-out-of-place', 'construction',
                                     'a second step phase during construction', seq))
                        return out
                elif not batch_pending:
                    out.append(V('C05', 'C05.phase-out-of-place', 'no-batch',
                                 'a step phase at %r that does not follow a batch of process updates' % ev['T'], seq))
                    return out
                phase = {'T': ev['T'], 'start': set(live), 'ran': [], 'tokens': {},
                         'deleted': set(), 'gen': _model_layers(live, specs, order_p + order_s),
                         'gen_snap': {}, 'flow_ran': False}
                batch_pending = False
                if in_construction:
                    construction_phase_done = True
            sp = specs[name]
            if ev['ts'] != 0:
                out.append(V('C05', 'C05.timestep', 'plain',
                             'step %s run with timestep %r' % (name, ev['ts']), seq))
                return out
            if name not in phase['start']:
                probe('step-created-in-phase')
                out.append(V('C05', 'C05.ran-too-early', 'created-in-phase',
                             'step %s was created during this phase and already runs in it' % name, seq))
                return out
            if name in phase['ran']:
                out.append(V('C05', 'C05.ran-twice', 'deriver' if sp['flow'] is None else 'flow',
                             'step %s ran twice in the phase at %r' % (name, phase['T']), seq))
                return out
            if name in phase['deleted']:
                out.append(V('C05', 'C05.ran-after-delete', 'plain',
                             'step %s ran after its compartment was deleted in this phase' % name, seq))
                return out
            view = ev.get('view') or {}
            vt = view.get('tok') or {}
            if sp['flow'] is None:
                if phase['flow_ran']:
                    out.append(V('C05', 'C05.deriver-after-flow', 'plain',
                                 'flow-less step %s ran after a flow step' % name, seq))
                    return out
                for order in (order_p, order_s):
                    if name in order:
                        for prev in order[:order.index(name)]:
                            if prev in phase['start'] and prev not in phase['deleted']:
                                probe('deriver-order-checked')
                                if prev not in phase['ran']:
                                    out.append(V('C05', 'C05.deriver-order', 'not-run',
                                                 'deriver %s ran before %s, declared earlier' % (name, prev), seq))
                                    return out
                                if prev in sp['reads'] and vt.get(prev) != phase['tokens'][prev]:
                                    out.append(V('C05', 'C05.deriver-order', 'not-applied',
                                                 'deriver %s does not see the update of %s from this phase' % (name, prev), seq))
                                    return out
            else:
                phase['flow_ran'] = True
                for d in sp['reads']:
                    if d in phase['start'] and d not in phase['deleted']:
                        probe('dep-edge-checked')
                        if d not in phase['ran']:
                            out.append(V('C05', 'C05.dependency-order', 'not-run',
                                         'step %s ran before its dependency %s' % (name, d), seq))
                            return out
                        if vt.get(d) != phase['tokens'][d]:
                            out.append(V('C05', 'C05.dependency-order', 'not-applied',
                                         'step %s sees %r for its dependency %s, whose update of this phase is %r' % (
                                             name, vt.get(d), d, phase['tokens'][d]), seq))
                            return out
            if sp.get('watch') and ev.get('snap') is not None:
                seen_w = sorted(((ev.get('view') or {}).get('world') or {}).keys())
                real_w = sorted((ev['snap'].get('world') or {}).keys())
                if seen_w != real_w:
                    out.append(V('C05', 'C05.dependency-effects-not-visible', 'structural',
                                 'step %s runs after the steps it depends on, yet sees compartments %r while the '
                                 'hierarchy holds %r' % (name, seen_w, real_w), seq))
                    return out
                probe('watcher-checked')
            g = phase['gen'].get(name)
            snap = ev.get('snap')
            if g is not None and snap is not None:
                if g in phase['gen_snap']:
                    probe('same-generation-pair')
                    other, osnap = phase['gen_snap'][g]
                    if osnap != snap:
                        out.append(V('C05', 'C05.same-layer-snapshot', 'plain',
                                     'steps %s and %s can run together but saw different states' % (other, name), seq))
                        return out
                else:
                    phase['gen_snap'][g] = (name, snap)
            up = ev.get('update') or {}
            tok = (up.get('tok') or {}).get(name)
            phase['tokens'][name] = tok
            phase['ran'].append(name)
            if 'world' in up:
                pending_struct[(ev['uid'], ev['n'])] = up['world']
            continue
        if k == 'APPLY':
            u = ev['uid']
            if isinstance(u, (tuple, list)) and len(u) == 2:
                base = u[0].split('#')[0]
                if base in procnames:
                    err = close_phase(seq)
                    if err:
                        out.append(err)
                        return out
                    batch_pending = True
                    continue
                if base in specs:
                    w = pending_struct.pop((u[0], u[1]), None)
                    if w:
                        for key in w.get('_delete', []):
                            for n in list(live):
                                if comp_of.get(n) == ('world', key):
                                    live.discard(n)
                                    if phase is not None:
                                        phase['deleted'].add(n)
                        for g in w.get('_generate', []):
                            for sname in g.get('steps', {}):
                                gsp = _gen_spec(case, sname)
                                if gsp is not None:
                                    if gsp['flow'] is None and sname not in order_s:
                                        order_s.append(sname)
                                    specs[sname] = gsp
                                    comp_of[sname] = ('world', g['key'])
                                    live.add(sname)
                    continue
            continue
        if k == 'COND' and ev['uid'].split('#')[0] in specs:
            continue
        # any other event ends a phase
        err = close_phase(seq)
        if err:
            out.append(err)
            return out
        if k == 'EMIT' and ev.get('table') == 'history' or k in ('POLL', 'OPEND'):
            if k == 'EMIT' and in_construction and not construction_phase_done and live:
                out.append(V('C05', 'C05.no-phase', 'construction',
                             'no step phase ran before the first row', seq))
                return out
            if batch_pending and live and run.exc is None:
                out.append(V('C05', 'C05.no-phase', 'after-batch',
                             'process updates were applied at %r but no step phase followed' % ev['T'], seq))
                return out
            if k != 'POLL':
                batch_pending = False if k == 'OPEND' else batch_pending
        if k == 'OPEND' and ev['op'] == -1:
            in_construction = False
    return out


def _gen_spec(case, sname):
    for sp in case.get('steps', []):
        g = sp.get('gen')
        if g:
            for gs in g['steps']:
                if gs['name'] == sname:
                    return gs
    return None
