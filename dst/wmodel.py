"""Reference model for wiring and updaters: an independent resolver from
(process location, ports schema, topology) to absolute hierarchy nodes, the
documented updaters, and the expected view / state after each update.

No vivarium imports: written from the property statements and the docs."""

import copy

SCHEMA_KEYS = ('_default', '_updater', '_value', '_properties', '_emit',
               '_serializer', '_units', '_divider')


LEAF_KEYS = ('_default', '_updater', '_value', '_properties', '_emit', '_serializer')


def is_leaf_schema(s):
    return isinstance(s, dict) and any(k in s for k in LEAF_KEYS)


def norm(path):
    out = []
    for seg in path:
        if seg == '..':
            if not out:
                raise ValueError('path climbs above the root: %r' % (path,))
            out.pop()
        else:
            out.append(seg)
    return tuple(out)


class Var:
    __slots__ = ('spath', 'abs', 'schema', 'output')

    def __init__(self, spath, abs_, schema, output):
        self.spath, self.abs, self.schema, self.output = spath, abs_, schema, output


class Glob:
    __slots__ = ('spath', 'base', 'sub', 'subtopo', 'output')

    def __init__(self, spath, base, sub, subtopo, output):
        self.spath, self.base, self.sub, self.subtopo, self.output = spath, base, sub, subtopo, output


def resolve(Q, schema, topology):
    """Q: absolute path of the compartment holding the process."""
    entries = []

    def at_node(node, sch, spath, output):
        if is_leaf_schema(sch):
            entries.append(Var(spath, node, sch, output))
            return
        output = output or bool(sch.get('_output'))
        for k, sub in sch.items():
            if k in ('_output', '_divider'):
                continue
            if k == '*':
                entries.append(Glob(spath, node, sub, None, output))
                continue
            at_node(node + (k,), sub, spath + (k,), output)

    def with_topo(node, sch, tp, spath, output):
        for k, sub in sch.items():
            if k in ('_output', '_divider'):
                continue
            t = tp.get(k)
            if k == '*':
                if isinstance(t, dict):
                    base = norm(node + tuple(t['_path'])) if '_path' in t else node
                    st = {a: b for a, b in t.items() if a != '_path'}
                    entries.append(Glob(spath, base, sub, st, output))
                else:
                    t = tuple(t) if t is not None else ('*',)
                    entries.append(Glob(spath, norm(node + t), sub, None, output))
                continue
            if isinstance(t, dict):
                base = norm(node + tuple(t['_path'])) if '_path' in t else node
                st = {a: b for a, b in t.items() if a != '_path'}
                out2 = output or (isinstance(sub, dict) and bool(sub.get('_output')))
                with_topo(base, sub, st, spath + (k,), out2)
            else:
                t = tuple(t) if t is not None else (k,)
                at_node(norm(node + t), sub, spath + (k,), output)

    with_topo(tuple(Q), schema, topology, (), False)
    return entries


def glob_child_entries(g, child):
    """Resolve the sub-schema of a glob for one child."""
    spath = g.spath + (child,)
    node = g.base + (child,)
    if g.subtopo is None:
        out = []

        def at_node(n, sch, sp):
            if is_leaf_schema(sch):
                out.append(Var(sp, n, sch, g.output))
                return
            for k, sub in sch.items():
                if k in ('_output', '_divider'):
                    continue
                at_node(n + (k,), sub, sp + (k,))
        at_node(node, g.sub, spath)
        return out
    res = resolve(node, g.sub, g.subtopo)
    out = []
    for e in res:
        if isinstance(e, Var):
            out.append(Var(spath + e.spath, e.abs, e.schema, g.output))
    return out


# ---------------------------------------------------------------------------
# updaters (documented semantics)
# ---------------------------------------------------------------------------

def deep_merge_new(cur, new):
    out = copy.deepcopy(cur) if isinstance(cur, dict) else {}
    for k, v in new.items():
        if isinstance(v, dict) and isinstance(out.get(k), dict):
            out[k] = deep_merge_new(out[k], v)
        else:
            out[k] = copy.deepcopy(v)
    return out


def up_accumulate(cur, u):
    return cur + u


def up_set(cur, u):
    return u


def up_null(cur, u):
    return cur


def up_nonneg(cur, u):
    r = cur + u
    try:
        import numpy as np
        if isinstance(r, np.ndarray):
            r = r.copy()
            r[r < 0] = 0
            return r
    except ImportError:  # pragma: no cover
        pass
    return r if r >= 0 else 0 * r


def up_merge(cur, u):
    return deep_merge_new(cur, u)


def up_dict_value(cur, u):
    out = copy.deepcopy(cur)
    for k, v in u.items():
        if k == '_add':
            for a in v:
                out[a['key']] = copy.deepcopy(a['state'])
        elif k == '_delete':
            for d in v:
                del out[d]
        else:
            out[k] = dict(out[k])
            out[k].update(copy.deepcopy(v))
    return out


def up_affine(cur, u):
    # a user updater that does not commute (order inside a batch matters)
    return (cur * 2 + u) % 9973


UPDATERS = {
    'accumulate': up_accumulate, 'set': up_set, 'null': up_null,
    'nonnegative_accumulate': up_nonneg, 'merge': up_merge,
    'dict_value': up_dict_value, 'verif_affine': up_affine,
}


def apply_leaf(cur, u, updater_name, default, units=None):
    """Model of applying update u to a leaf holding cur.  A variable with
    declared units holds a quantity in those units after any update."""
    name = updater_name or 'accumulate'
    if isinstance(u, dict) and any(k in u for k in (
            '_default', '_updater', '_value', '_properties', '_emit', '_serializer')):
        if '_updater' in u:
            name = u['_updater']
            u = u.get('_value', default)
    out = UPDATERS[name](cur, u)
    if units is not None and _is_qty(out):
        out = out.to(units)
    return out


# ---------------------------------------------------------------------------
# state helpers
# ---------------------------------------------------------------------------

def flat(tree, leafset, path=()):
    """Flatten a nested snapshot into {abs path: value}; paths in leafset are
    atomic (their values may be dictionaries)."""
    out = {}
    if path in leafset or not isinstance(tree, dict):
        out[path] = tree
        return out
    if not tree:
        out[path] = {}
        return out
    for k, v in tree.items():
        out.update(flat(v, leafset, path + (k,)))
    return out


def _is_qty(x):
    return hasattr(x, 'magnitude') and hasattr(x, 'units')


def values_equal(a, b):
    if _is_qty(a) or _is_qty(b):
        # strict: same units (not merely the same dimension), same magnitude
        if not (_is_qty(a) and _is_qty(b)):
            return False
        if str(a.units) != str(b.units):
            return False
        ma, mb = a.magnitude, b.magnitude
        try:
            return abs(ma - mb) <= 1e-9 * max(1.0, abs(ma), abs(mb))
        except TypeError:
            return values_equal(ma, mb)
    try:
        import numpy as np
        if isinstance(a, np.ndarray) or isinstance(b, np.ndarray):
            return isinstance(a, np.ndarray) and isinstance(b, np.ndarray) \
                and a.shape == b.shape and bool((a == b).all())
    except ImportError:  # pragma: no cover
        pass
    if isinstance(a, dict) and isinstance(b, dict):
        return a.keys() == b.keys() and all(values_equal(a[k], b[k]) for k in a)
    if isinstance(a, (list, tuple)) and isinstance(b, (list, tuple)):
        return len(a) == len(b) and all(values_equal(x, y) for x, y in zip(a, b))
    if type(a) != type(b) and not (isinstance(a, (int, float)) and isinstance(b, (int, float))
                                    and not isinstance(a, bool) and not isinstance(b, bool)):
        if not (hasattr(a, 'units') and hasattr(b, 'units')):
            return False
    try:
        r = (a == b)
        return bool(r)
    except Exception:
        return False


class Model:
    """Flat model of the hierarchy: abs leaf path -> value, with per-leaf
    attributes."""

    def __init__(self):
        self.val = {}
        self.attr = {}       # abs -> {'default','updater','emit'}
        self.markers = {}    # abs -> process marker

    def leafset(self):
        return set(self.val)

    def children(self, base):
        n = len(base)
        out = []
        for p in list(self.val) + list(self.markers):
            if len(p) > n and p[:n] == base and p[n] not in out:
                out.append(p[n])
        return out

    def view(self, Q, schema, topology, ports_extra=None):
        """Expected `states` argument of a process declared with schema /
        topology living in compartment Q."""
        view = {}
        for port, sub in schema.items():
            if is_leaf_schema(sub):
                continue
            view.setdefault(port, {})
        for e in resolve(Q, schema, topology):
            if isinstance(e, Var):
                if e.output:
                    continue
                _put(view, e.spath, self.val.get(e.abs))
            else:
                if e.output:
                    continue
                if e.spath:
                    _ensure(view, e.spath)
                for c in self.children(e.base):
                    _ensure(view, e.spath + (c,))
                    for ce in glob_child_entries(e, c):
                        _put(view, ce.spath, self.val.get(ce.abs))
        return view


def _put(d, path, value):
    for k in path[:-1]:
        d = d.setdefault(k, {})
    d[path[-1]] = value


def _ensure(d, path):
    for k in path:
        d = d.setdefault(k, {})
