"""Wiring profile (C06, C07, C08, C15; carries C12 row fidelity): generated
ports schemas and topologies of every documented form, several processes
sharing variables, all registered updaters; the real store is compared with
the reference model at every event of every run."""

import copy

from dst.rng import Rng, derive
from dst import harness, kernel
from dst.kernel import V, tval
from dst import wmodel
from dst.rec import REC
from dst.wmodel import resolve, glob_child_entries, Var, Glob, Model, flat, values_equal

PROFILE = 'wiring'

PLAIN_STORES = [('A',), ('B',), ('c0', 'S'), ('c0', 'c1', 'T'), ('c0', 'A')]
GLOB_STORES = [('agents',), ('c0', 'cells')]
PARENTS = [(), (), ('c0',), ('c0', 'c1')]


def rel(Q, target, r=None):
    """A relative path from compartment Q to absolute `target`."""
    Q = tuple(Q)
    target = tuple(target)
    i = 0
    while i < len(Q) and i < len(target) - 0 and i < len(target) and Q[i] == target[i]:
        i += 1
    minimal = ('..',) * (len(Q) - i) + target[i:]
    longf = ('..',) * len(Q) + target
    if r is None:
        return list(minimal)
    m = r.below(10)
    if m < 6 or not Q:
        path = minimal
    else:
        path = longf
    if r.chance(8) and len(target) >= 1 and len(path) >= 1 and path[-1] != '..':
        # detour: step into the final node's sibling-less self and back
        path = path[:-1] + (path[-1], '..', path[-1])
    return list(path)


def _leaf_attrs(r, swarm):
    kinds = ['acc_int'] * 5 + ['set'] * 2 + ['acc_float', 'acc_list']
    if swarm['updaters']:
        kinds += ['null', 'nonneg', 'nonneg', 'merge', 'merge', 'dict_value', 'affine', 'acc_nd', 'nonneg_nd']
    if swarm.get('units'):
        kinds += ['qty'] * 4 + ['ser_int'] * 2 + ['ser_qty', 'qty_list']
    kind = r.pick(kinds)
    a = {'kind': kind, 'emit': r.chance(70)}
    if kind == 'acc_int':
        a.update(updater=None if r.chance(60) else 'accumulate', default=r.rint(0, 50))
    elif kind == 'acc_float':
        a.update(updater='accumulate', default=r.rint(0, 64) / 8)
    elif kind == 'acc_list':
        a.update(updater='accumulate', default=[r.rint(0, 9)])
    elif kind == 'acc_nd':
        a.update(updater='accumulate', default={'__nd__': [r.rint(0, 9), r.rint(0, 9)]})
    elif kind == 'ser_int':
        # a variable with a custom serializer: rows show what the serializer makes of the value
        a.update(updater=None, default=r.rint(0, 50), serializer='verif_ser_tag')
    elif kind == 'nonneg_nd':
        a.update(updater='nonnegative_accumulate', default={'__nd__': [r.rint(0, 9), r.rint(0, 9)]})
    elif kind == 'qty_list':
        # a list of quantities given in a unit other than the declared one; never written,
        # so that rows show what emit makes of the initial value
        du, ou = r.pick([('mg', 'g'), ('um', 'mm'), ('mm', 'mm')])
        a.update(updater='set', units=du, emit=True,
                 default=[{'__q__': [r.rint(1, 16) * 0.5, ou]} for _ in range(r.rint(1, 3))])
    elif kind == 'ser_qty':
        # a quantity (its unit: that of the default) with a custom serializer of its own
        du = r.pick(['mm', 'mg'])
        same_dim = {'mm': ['mm', 'um'], 'mg': ['mg', 'g']}[du]
        a.update(updater=r.pick([None, 'set']), default={'__q__': [r.rint(1, 64) * 0.5, du]}, dims=same_dim,
                 serializer='verif_ser_qtag')
    elif kind == 'qty':
        # declared unit differs from the unit of the default in half of the cases
        du = r.pick(['mm', 'mm', 'um', 'g', 'mg'])
        same_dim = {'mm': ['mm', 'um', 'm'], 'um': ['um', 'mm'], 'g': ['g', 'mg'], 'mg': ['mg', 'g']}[du]
        a.update(updater=r.pick([None, 'accumulate', 'set']), units=du,
                 default={'__q__': [r.rint(1, 64) * 0.5, r.pick(same_dim)]}, dims=same_dim)
    elif kind == 'set':
        a.update(updater='set', default=r.rint(0, 50))
    elif kind == 'null':
        a.update(updater='null', default=r.rint(1, 50))
    elif kind == 'nonneg':
        a.update(updater='nonnegative_accumulate', default=r.rint(0, 20))
    elif kind == 'merge':
        a.update(updater='merge', default={'a': 1, 'b': {'c': r.rint(0, 9)}, 'h': {'i': {'j': r.rint(0, 9)}}})
    elif kind == 'dict_value':
        a.update(updater='dict_value', default={'k0': {'n': r.rint(0, 9)}})
    elif kind == 'affine':
        a.update(updater='verif_affine', default=r.rint(0, 5))
    return a


def _leaf_schema(a):
    s = {'_default': copy.deepcopy(a['default']), '_emit': a['emit']}
    if a['updater'] is not None:
        s['_updater'] = a['updater']
    if a.get('units'):
        s['_units'] = a['units']
    if a.get('serializer'):
        s['_serializer'] = a['serializer']
    return s


def _vals_for(r, a, pname, swarm):
    kind = a['kind']
    n = r.rint(1, 5)
    out = []
    for i in range(n):
        if kind == 'ser_int':
            v = r.rint(-20, 60)
        elif kind == 'acc_int':
            v = r.rint(-20, 60)
            if swarm['override'] and r.chance(25):
                m = r.below(4)
                if m == 0:
                    v = {'_value': r.pick([0, 0, 7, 13]), '_updater': 'set'}
                elif m == 1:
                    v = {'_value': r.pick([0, 5]), '_updater': 'accumulate'}
                elif m == 2:
                    v = {'_updater': 'set'}          # no value: the default
                else:
                    v = {'_value': r.rint(1, 9), '_updater': 'null'}
        elif kind == 'acc_float':
            v = r.rint(-16, 40) / 8
        elif kind == 'acc_list':
            v = [r.rint(0, 9) for _ in range(r.rint(0, 2))]
        elif kind == 'acc_nd':
            v = {'__nd__': [r.rint(-3, 9), r.rint(-3, 9)]}
        elif kind == 'nonneg_nd':
            v = {'__nd__': [r.rint(-6, 9), r.rint(-6, 9)]}
        elif kind in ('qty', 'ser_qty'):
            v = {'__q__': [r.rint(-8, 64) * 0.5, r.pick(a['dims'])]}
        elif kind in ('set', 'null'):
            v = r.pick([0, 0, r.rint(1, 99), r.rint(1, 99)])
        elif kind == 'nonneg':
            v = r.rint(-40, 20)
        elif kind == 'merge':
            v = r.pick([{'b': {'d': r.rint(0, 9)}}, {'e': r.rint(0, 9)}, {'a': r.rint(2, 9)},
                        {'b': {'c': r.rint(0, 9)}, 'f': {'g': 1}}, {},
                        {'h': {'i': {'k': r.rint(0, 9)}}}, {'h': {'m': {'n': r.rint(0, 9)}}},
                        {'h': {'m': {'o': r.rint(0, 9)}, 'i': {'j': r.rint(0, 9)}}}])
        elif kind == 'dict_value':
            v = r.pick([{'_add': [{'key': 'k_%s_%d' % (pname, i), 'state': {'n': r.rint(0, 9)}}]},
                        {'k0': {'n': r.rint(0, 9), 'm': 1}}, {'k0': {}},
                        # a record replaced within one update: entries act in the order given
                        {'_delete': ['k0'], '_add': [{'key': 'k0', 'state': {'n': r.rint(10, 19)}}]}])
        elif kind == 'affine':
            v = r.rint(0, 3)
        out.append(v)
    return out


def gen_case(seed):
    r = Rng(seed)
    swarm = {
        'updaters': r.chance(60), 'override': r.chance(40), 'glob': r.chance(50),
        'pathdict': r.chance(60), 'multi': r.chance(25), 'output': r.chance(25),
        'nested': r.chance(40), 'leafport': r.chance(50), 'partial_init': r.chance(60),
        'composite_init': r.chance(30), 'quiet': r.chance(20), 'share': r.chance(60),
        'globrename': r.chance(40), 'units': r.chance(30), 'ownpath': r.chance(35),
        'globvia': r.chance(30), 'conflict': r.chance(6), 'rebuild': r.chance(10),
    }
    # leaf pool
    pool = {}     # abs path -> attrs
    for st in PLAIN_STORES:
        for v in r.sample(['v0', 'v1', 'v2', 'v3'], r.rint(2, 3)):
            pool[st + (v,)] = _leaf_attrs(r, swarm)
    if swarm['ownpath']:
        for lp in (('top0',), ('top1',), ('c0', 'mid0'), ('c0', 'mid1'), ('c0', 'c1', 'low0')):
            pool[lp] = _leaf_attrs(r, swarm)
    if swarm['nested']:
        for w in ('w0', 'w1'):
            pool[('B', 'sub', w)] = _leaf_attrs(r, swarm)
            pool[('c0', 'S', 'sub', w)] = _leaf_attrs(r, swarm)
        for z in ('z0', 'z1'):
            pool[('B', 'sub', 'deep', z)] = _leaf_attrs(r, swarm)
            pool[('c0', 'S', 'sub', 'deep', z)] = _leaf_attrs(r, swarm)
    gsub = {}
    for g in GLOB_STORES:
        gsub[g] = {v: _leaf_attrs(r, swarm) for v in r.sample(['a', 'b', 'c'], r.rint(1, 3))}
    gkids = {('agents',): r.sample(['a0', 'a1', 'a2'], r.rint(1, 3)),
             ('c0', 'cells'): r.sample(['x0', 'x1'], r.rint(0, 2))}
    unit = [1, 8]
    nprocs = r.pick([1, 1, 2, 2, 3])
    procs = []
    used = set()
    init_given = set()
    for i in range(nprocs):
        name = 'w%d' % i
        Q = list(r.pick(PARENTS))
        schema, topo, writes, init = {}, {}, [], {}
        nports = r.rint(1, 4)
        for j in range(nports):
            port = 'pt%d' % j
            kinds = ['plain'] * 4
            if swarm['nested']:
                kinds += ['nested'] * 2
            if swarm['leafport']:
                kinds += ['leafport'] * 2
            if swarm['pathdict']:
                kinds += ['pathdict'] * 2 + ['split']
            if swarm['glob']:
                kinds += ['glob'] * 2 + ['globdict']
                if swarm['globvia']:
                    kinds += ['globvia'] * 2
            if swarm['ownpath'] and any(len(p_) == len(Q) + 1 and list(p_[:-1]) == Q for p_ in pool):
                kinds += ['ownpath'] * 3
            if swarm['output']:
                kinds += ['output']
            kind = r.pick(kinds)
            if kind in ('plain', 'output', 'pathdict'):
                st = r.pick(PLAIN_STORES)
                if swarm['share'] and used and r.chance(50):
                    cands = [s for s in PLAIN_STORES if any(p[:len(s)] == s for p in used)]
                    if cands:
                        st = r.pick(cands)
                names = [p[-1] for p in pool if p[:-1] == st]
                pick = r.sample(names, r.rint(1, len(names)))
                sch = {v: _leaf_schema(pool[st + (v,)]) for v in pick}
                decl = [((port, v), st + (v,)) for v in pick]
                if kind == 'output':
                    sch['_output'] = True
                    topo[port] = rel(Q, st, r)
                elif kind == 'plain':
                    topo[port] = rel(Q, st, r)
                else:
                    t = {'_path': rel(Q, st, r)}
                    others = [p for p in pool if p[:-1] != st and len(p) >= 2]
                    for extra in range(r.rint(1, 2)):
                        tgt = r.pick(others)
                        alias = 'r%d' % extra
                        sch[alias] = _leaf_schema(pool[tgt])
                        t[alias] = ['..'] * len(st) + list(tgt)
                        decl.append(((port, alias), tgt))
                    if swarm['multi'] and r.chance(60):
                        # a second name for a node this port already declares
                        spath, tgt = r.pick(decl)
                        if pool[tgt]['kind'] in ('acc_int', 'acc_float'):
                            sch['dup'] = _leaf_schema(pool[tgt])
                            t['dup'] = ['..'] * len(st) + list(tgt)
                            decl.append(((port, 'dup'), tgt))
                    topo[port] = t
                schema[port] = sch
            elif kind == 'ownpath':
                # the port is the process's own compartment: `_path: ()` with
                # variables that the dictionary does not list (default routes),
                # or the empty tuple itself
                mine = [p_ for p_ in pool if len(p_) == len(Q) + 1 and list(p_[:-1]) == Q]
                pick = r.sample(mine, r.rint(1, len(mine)))
                sch = {p_[-1]: _leaf_schema(pool[p_]) for p_ in pick}
                decl = [((port, p_[-1]), p_) for p_ in pick]
                if r.chance(60):
                    t = {'_path': []}
                    others = [p_ for p_ in pool if p_ not in mine and len(p_) >= 2]
                    if others and r.chance(50):
                        tgt = r.pick(others)
                        sch['far'] = _leaf_schema(pool[tgt])
                        t['far'] = ['..'] * len(Q) + list(tgt)
                        decl.append(((port, 'far'), tgt))
                    if Rng(derive(seed, 'ownsplit', name, port)).chance(40):
                        # the same wiring written without `_path`: a dictionary that lists
                        # some variables (or none) and leaves the others on their default routes
                        del t['_path']
                    topo[port] = t
                else:
                    topo[port] = []
                schema[port] = sch
            elif kind == 'nested':
                st = r.pick([('B',), ('c0', 'S')])
                names = [p[-1] for p in pool if p[:-1] == st]
                pick = r.sample(names, r.rint(0, len(names)))
                sch = {v: _leaf_schema(pool[st + (v,)]) for v in pick}
                sub = [w for w in ('w0', 'w1') if r.chance(70)] or ['w0']
                sch['sub'] = {w: _leaf_schema(pool[st + ('sub', w)]) for w in sub}
                decl = [((port, v), st + (v,)) for v in pick] + \
                       [((port, 'sub', w), st + ('sub', w)) for w in sub]
                if r.chance(60):
                    deep = [z for z in ('z0', 'z1') if r.chance(70)] or ['z0']
                    sch['sub']['deep'] = {z: _leaf_schema(pool[st + ('sub', 'deep', z)]) for z in deep}
                    decl += [((port, 'sub', 'deep', z), st + ('sub', 'deep', z)) for z in deep]
                schema[port] = sch
                topo[port] = rel(Q, st, r)
            elif kind == 'leafport':
                tgt = r.pick([p for p in pool])
                schema[port] = _leaf_schema(pool[tgt])
                topo[port] = rel(Q, tgt, r)
                decl = [((port,), tgt)]
                if swarm['multi'] and r.chance(50) and pool[tgt]['kind'] in ('acc_int', 'acc_float'):
                    schema[port + 'b'] = _leaf_schema(pool[tgt])
                    topo[port + 'b'] = rel(Q, tgt, r)
                    decl.append(((port + 'b',), tgt))
            elif kind == 'split':
                tg = r.sample([p for p in pool], 2)
                sch, t, decl = {}, {}, []
                for n_, tgt in enumerate(tg):
                    nm = 'sp%d' % n_
                    sch[nm] = _leaf_schema(pool[tgt])
                    t[nm] = rel(Q, tgt, r)
                    decl.append(((port, nm), tgt))
                schema[port] = sch
                topo[port] = t
            else:   # glob / globdict / globvia
                g = r.pick(GLOB_STORES)
                sub = gsub[g]
                pick = r.sample(list(sub), r.rint(1, len(sub)))
                decl = []
                if kind == 'globvia':
                    # {'_path': some store, '*': path from there to the glob store}
                    via = r.pick(PLAIN_STORES)
                    schema[port] = {'*': {v: _leaf_schema(sub[v]) for v in pick}}
                    topo[port] = {'_path': rel(Q, via, r), '*': ['..'] * len(via) + list(g)}
                    for v in pick:
                        decl.append(((port, '@', v), g + ('@', v)))
                elif kind == 'glob':
                    schema[port] = {'*': {v: _leaf_schema(sub[v]) for v in pick}}
                    topo[port] = rel(Q, g, r)
                    for v in pick:
                        decl.append(((port, '@', v), g + ('@', v)))
                else:
                    ren = {v: ('n_' + v if swarm['globrename'] and r.chance(50) else v) for v in pick}
                    schema[port] = {'*': {ren[v]: _leaf_schema(sub[v]) for v in pick}}
                    if r.chance(50):
                        topo[port] = {'_path': rel(Q, g, r), '*': {ren[v]: [v] for v in pick}}
                    else:
                        # the '_path' inside the glob's own dictionary
                        topo[port] = {'*': dict({'_path': rel(Q, g, r)}, **{ren[v]: [v] for v in pick})}
                    for v in pick:
                        decl.append(((port, '@', ren[v]), g + ('@', v)))
            # writes for this port's declarations
            for spath, tgt in decl:
                if '@' in tgt:
                    attrs = gsub[tuple(tgt[:tgt.index('@')])][tgt[-1]]
                    used.add(tuple(tgt[:tgt.index('@')]))
                else:
                    attrs = pool[tgt]
                    used.add(tgt)
                if attrs['kind'] != 'qty_list' and r.chance(70):
                    sp = ['@%d' % r.below(3) if s == '@' else s for s in spath]
                    w_ = {'path': sp, 'vals': _vals_for(r, attrs, name, swarm),
                          'mask': [1 if r.chance(70) else 0 for _ in range(r.rint(1, 4))]}
                    if attrs['kind'] in ('acc_list', 'acc_nd') and '@' not in tgt and r.chance(50):
                        # "add what I saw": the update is an object the process was shown - the value
                        # of this variable, or of another variable of the same kind it also writes
                        w_['echo'] = list(spath)
                        same = [sp_ for sp_, t_ in decl if '@' not in t_ and t_ != tgt
                                and pool[t_]['kind'] == attrs['kind']]
                        if same and r.chance(70):
                            w_['echo'] = list(r.pick(same))
                        w_['mask'] = [1, 0, 0, 0, 0, 0, 0, 0, 0, 0, 0, 0]    # values grow geometrically
                    writes.append(w_)
                if swarm['composite_init'] and '@' not in tgt and r.chance(20) \
                        and attrs['kind'] in ('acc_int', 'set') and tgt not in init_given:
                    init_given.add(tgt)
                    harness.assoc(init, list(spath), r.rint(100, 200))
        spec = {'name': name, 'path': Q + [name], 'schema': schema, 'topology': topo,
                'writes': writes, 'init': init,
                'ts': {'mode': 'const', 'vals': [r.rint(1, 12)], 'unit': unit}}
        if r.chance(30):
            spec['ts'] = {'mode': 'poll', 'vals': [r.rint(1, 12) for _ in range(3)], 'unit': unit}
        if swarm['quiet'] and r.chance(50):
            spec['cond'] = {'mode': 'poll', 'vals': [r.below(2) for _ in range(4)]}
        procs.append(spec)
    # explicit (partial) initial state
    init_state = {}
    if swarm['partial_init']:
        for p_, a in pool.items():
            if r.chance(35) and a['kind'] in ('acc_int', 'set', 'nonneg', 'affine', 'acc_float', 'null'):
                harness.assoc(init_state, list(p_), r.rint(0, 90))
    for g, kids in gkids.items():
        for kid in kids:
            given = {}
            for v, a in gsub[g].items():
                if r.chance(40) and a['kind'] in ('acc_int', 'set', 'nonneg', 'affine', 'null'):
                    given[v] = r.rint(0, 90)
            harness.assoc(init_state, list(g) + [kid], given)
    ops = []
    for i in range(r.rint(1, 3)):
        u = r.rint(1, 30)
        ops.append(r.pick([['run_for', u, False], ['run_for', u, True], ['update', u]]))
    # who declares which plain leaf (by the independent resolver)
    declared_by = {}
    for spec in procs:
        for e in resolve(tuple(spec['path'][:-1]), spec['schema'], _tuplify(spec['topology'])):
            if isinstance(e, Var):
                declared_by.setdefault(e.abs, []).append((spec['name'], list(e.spath)))
    conflict = None
    if swarm['conflict'] and len(procs) >= 2:
        # two processes declare one variable incompatibly: construction must raise
        first = procs[0]
        cands = [(a, d) for a, d in declared_by.items()
                 if d[0][0] == first['name'] and pool.get(a, {}).get('kind') in ('acc_int', 'set')]
        if cands:
            abs_, d = r.pick(cands)
            kind = r.pick(['value', 'units', 'serializer'])
            second = procs[1]
            port = 'cf'
            sch2 = _leaf_schema(pool[abs_])
            node = first['schema']
            for seg in d[0][1]:
                node = node[seg]
            if kind == 'value':
                # (a falsy value is a value too; own stream)
                node['_value'] = Rng(derive(seed, 'conflict_value')).pick([5, 0, 0, False, 0.0])
                sch2['_value'] = 6
            elif kind == 'units':
                node['_units'] = 'mm'
                sch2['_units'] = 'g'
            else:
                node['_serializer'] = 'verif_ser_a'
                sch2['_serializer'] = 'verif_ser_b'
            second['schema'][port] = sch2
            second['topology'][port] = rel(second['path'][:-1], abs_)
            conflict = {'abs': list(abs_), 'kind': kind}
    rebuild = None
    if swarm['rebuild'] and not conflict:
        cands = [(a, d) for a, d in declared_by.items()
                 if len(d) == 1 and pool.get(a, {}).get('kind') in ('acc_int', 'set')
                 and get_in(init_state, a) is None]
        if cands:
            abs_, d = r.pick(cands)
            rebuild = {'proc': d[0][0], 'spath': d[0][1], 'abs': list(abs_), 'default': r.rint(500, 600)}
    # the engine built around an existing store, with an initial state that names glob
    # children the store does not hold yet (own stream: earlier seeds keep their cases)
    store_entry = None
    rs = Rng(derive(seed, 'store_entry'))
    if rs.chance(12) and not conflict and not rebuild and not swarm['composite_init']:
        late = [list(g) + [kid] for g, kids in gkids.items() for kid in kids if rs.chance(50)]
        store_entry = {'late': late}
    return {
        'profile': PROFILE, 'seed': seed,
        'conflict': conflict, 'rebuild': rebuild,
        'opts': {'precision': None, 'unit': unit, 'emit_step': 1, 't0': 0,
                 'composite_init': swarm['composite_init'], 'store_entry': store_entry,
                 'composite_own_state': bool(swarm['composite_init'] and
                                             Rng(derive(seed, 'composite_own_state')).chance(50))},
        'pool': [[list(p_), a] for p_, a in pool.items()],
        'gsub': [[list(g), {v: a for v, a in sub.items()}] for g, sub in gsub.items()],
        'procs': procs, 'init': init_state, 'ops': ops,
        'swarm': sorted(k for k, v in swarm.items() if v),
    }


# ---------------------------------------------------------------------------
# execution
# ---------------------------------------------------------------------------

def _tuplify(t):
    if isinstance(t, list):
        return tuple(t)
    if isinstance(t, dict):
        return {k: _tuplify(v) for k, v in t.items()}
    return t


def topo_of(spec):
    topo = _tuplify(spec['topology'])
    depth = len(spec['path']) - 1
    topo['probe'] = ('..',) * depth + ('verif_probe',)
    return topo


def qtag(q):
    return 'qtag:%r|%s' % (float(q.magnitude), q.units)


def register_updaters():
    from vivarium.core.registry import updater_registry, serializer_registry, Serializer
    if updater_registry.access('verif_affine') is None:
        updater_registry.register('verif_affine', wmodel.up_affine)
    if serializer_registry.access('verif_ser_a') is None:
        class SerA(Serializer):
            python_type = int

            def serialize(self, data):
                return data

        class SerB(SerA):
            pass
        serializer_registry.register('verif_ser_a', SerA())
        serializer_registry.register('verif_ser_b', SerB())

        class SerTag(Serializer):
            python_type = int

            def serialize(self, data):
                return 'tag:%r' % (data,)
        serializer_registry.register('verif_ser_tag', SerTag())

        class SerQTag(Serializer):
            python_type = complex      # (no value of the cases has this type)

            def serialize(self, data):
                return qtag(data)
        serializer_registry.register('verif_ser_qtag', SerQTag())


def build(case, perm=None, parallel=()):
    from dst.parties import WProc
    processes, topology = {}, {}
    procs = list(case['procs'])
    if perm is not None:
        procs = Rng(derive(perm, 'perm')).shuffle(procs)
    for spec in procs:
        params = {'spec': spec, 'name': spec['name']}
        if perm is not None:
            params['perm'] = derive(perm, spec['name'])
        if spec['name'] in parallel:
            params['_parallel'] = True
        proc = WProc(params)
        harness.assoc(processes, spec['path'], proc)
        harness.assoc(topology, spec['path'], topo_of(spec))
    if perm is not None:
        topology = kernel.permute_dict(topology, Rng(derive(perm, 'topo')))
    return processes, topology


def budget_for(case, units):
    n = len(case['procs']) + 2
    return 12000 * (units + 20) * n


def split_init(case, init):
    """(state the composite holds itself, state given in the config of
    initial_state()): a seeded split of the leaves of the initial state when
    the case asks for it, else everything in the config."""
    if not case['opts'].get('composite_own_state'):
        return {}, init
    own, cfg = {}, {}

    def walk(d, path):
        for k, v in d.items():
            if isinstance(v, dict) and v and not ('__q__' in v or '__nd__' in v):
                walk(v, path + [k])
            else:
                # (decided per leaf, whatever the order the dictionaries are listed in)
                mine = Rng(derive(case.get('seed', 0), 'own_state', '/'.join(path + [k]))).chance(50)
                harness.assoc(own if mine else cfg, path + [k], copy.deepcopy(v))
    walk(init, [])
    return own, cfg


def execute(case, perm=None, parallel=(), sim_seed=None, tail_ops=()):
    from dst.parties import decode_value
    opts = case['opts']
    unit = opts['unit']
    run = harness.Run()
    harness.begin_run(0.0, seed=case.get('seed', 0), simmp_seed=sim_seed)
    register_updaters()
    store = comp = None
    try:
        processes, topology = build(case, perm, parallel)
        init = decode_value(copy.deepcopy(case.get('init') or {}))
        if perm is not None:
            init = kernel.permute_dict(init, Rng(perm))
        if opts.get('composite_init'):
            from vivarium.core.composer import Composite
            own, cfg = split_init(case, init)
            comp = Composite({'processes': processes, 'topology': topology, 'state': own})
            try:
                run.extra['composite_default'] = comp.default_state()
                run.extra['composite_initial'] = comp.initial_state({'initial_state': copy.deepcopy(cfg)})
                # history on one object: asking again without the explicit state
                run.extra['composite_initial_again'] = comp.initial_state()
                init = copy.deepcopy(run.extra['composite_initial'])
            except Exception as e:   # recorded, judged by the oracle
                run.extra['composite_exc'] = harness.norm_exc(e)
        rb = case.get('rebuild')
        if rb:
            # build once, override a default on the same process object, build again
            REC.active = False
            try:
                from vivarium.core.engine import Engine
                Engine(processes=processes, topology=topology, initial_state=copy.deepcopy(init),
                       emitter={'type': 'null'}, display_info=False, progress_bar=False)
            except Exception as e:
                run.extra['rebuild_exc'] = harness.norm_exc(e)
            REC.active = True
            node = processes
            for seg in [s_ for s_ in case['procs'] if s_['name'] == rb['proc']][0]['path']:
                node = node[seg]
            ov = {}
            harness.assoc(ov, list(rb['spath']), {'_default': rb['default']})
            node.merge_overrides(ov)
        se = opts.get('store_entry')
        if se:
            from vivarium.core.store import generate_state
            first = copy.deepcopy(init)
            for path in se['late']:
                node = first
                for seg in path[:-1]:
                    node = node.get(seg, {}) if isinstance(node, dict) else {}
                if isinstance(node, dict):
                    node.pop(path[-1], None)
            store = generate_state(processes, topology, first)
            eng = harness.make_engine(run, budget_for(case, 1), store=store, initial_state=init)
        else:
            eng = harness.make_engine(
                run, budget_for(case, 1),
                processes=processes, topology=topology, initial_state=init)
        if eng is not None:
            harness.drive(run, eng, case['ops'], unit,
                          lambda op: budget_for(case, op[1] if len(op) > 1 else 1))
            if run.exc is None:
                run.extra['final_state'] = REC.snapshot()
            if run.exc is None and tail_ops:
                harness.drive(run, eng, [list(o) for o in tail_ops], unit, lambda op: 2000000,
                              first_index=len(case['ops']))
                if run.extra.get('drop'):
                    # nothing of ours may keep the engine's objects alive
                    eng = None
                    processes = topology = None
                    store = comp = None
                    harness.drop_engine(run)
    finally:
        harness.end_run()
    return harness.finish(run)


# ---------------------------------------------------------------------------
# model construction and oracle
# ---------------------------------------------------------------------------

def _dec(v):
    from dst.parties import decode_value
    return decode_value(copy.deepcopy(v))


def build_model(case):
    """Expected state right after construction (C15) from the declarations
    and the explicit initial state."""
    m = Model()
    pool = {tuple(p_): a for p_, a in case['pool']}
    gsub = {tuple(g): sub for g, sub in case['gsub']}
    decl = {}      # proc name -> (Q, schema, topology)
    declared = set()
    globs_declared = {}   # base -> set of sub vars (absolute child-relative paths)
    for spec in case['procs']:
        Q = tuple(spec['path'][:-1])
        schema = spec['schema']
        topo = _tuplify(spec['topology'])
        decl[spec['name']] = (Q, schema, topo)
        for e in resolve(Q, schema, topo):
            if isinstance(e, Var):
                declared.add(e.abs)
                m.attr[e.abs] = {'default': e.schema.get('_default'),
                                 'updater': e.schema.get('_updater'),
                                 'emit': e.schema.get('_emit', False),
                                 'units': _units_of(e.schema),
                                 'serializer': e.schema.get('_serializer')}
            else:
                globs_declared.setdefault(e.base, []).append(e)
        m.markers[tuple(spec['path'])] = ('<P>', spec['name'])
    init = case.get('init') or {}
    # plain declared leaves
    for p_ in declared:
        m.val[p_] = _dec(m.attr[p_]['default'])
    # glob children: named in the initial state
    for base, gl in globs_declared.items():
        node = init
        for seg in base:
            node = node.get(seg, {}) if isinstance(node, dict) else {}
        kids = list(node.keys()) if isinstance(node, dict) else []
        for kid in kids:
            for g in gl:
                for ce in glob_child_entries(g, kid):
                    m.attr[ce.abs] = {'default': ce.schema.get('_default'),
                                      'updater': ce.schema.get('_updater'),
                                      'emit': ce.schema.get('_emit', False),
                                      'units': _units_of(ce.schema),
                                      'serializer': ce.schema.get('_serializer')}
                    m.val[ce.abs] = _dec(ce.schema.get('_default'))
    return m, decl, globs_declared


def _units_of(schema):
    """The unit a variable is kept in: the declared one, else that of a
    quantity default."""
    if schema.get('_units'):
        return schema['_units']
    d = schema.get('_default')
    if isinstance(d, dict) and '__q__' in d:
        return d['__q__'][1]
    return None


def apply_initial(m, init, path=()):
    """Explicit initial values win over defaults, for declared leaves only
    (undeclared keys are ignored by construction)."""
    if path in m.val:
        m.val[path] = _dec(init)
        return
    if isinstance(init, dict):
        for k, v in init.items():
            apply_initial(m, v, path + (k,))


def get_in(d, path):
    for k in path:
        if not isinstance(d, dict) or k not in d:
            return None
        d = d[k]
    return d


def check(case, run, stats=None):
    stats = stats if stats is not None else {}
    probes = stats.setdefault('probes', {})

    def probe(name, n=1):
        probes[name] = probes.get(name, 0) + n

    out = []
    if run.budget_hit:
        return [V('C03', 'C03.no-termination', 'wiring', 'budget exceeded')]
    if case.get('conflict'):
        # incompatible declarations must be rejected at construction
        cf = case['conflict']
        if run.exc is not None and run.exc[0] == -1 and 'Incompatible schema assignment' in run.exc[2]:
            probe('conflict-rejected')
            return []
        return [V('C15', 'C15.conflict-accepted', cf['kind'],
                  'two processes declare %s with conflicting %s; construction %s' % (
                      '/'.join(cf['abs']), cf['kind'],
                      'succeeded' if run.exc is None else 'raised something else: ' + run.exc[1]))]
    m, decl, globs = build_model(case)
    rb = case.get('rebuild')
    if rb:
        if 'rebuild_exc' in run.extra:
            return [V('C15', 'engine-exception', run.extra['rebuild_exc'], 'first construction raised')]
        m.attr[tuple(rb['abs'])]['default'] = rb['default']
        m.val[tuple(rb['abs'])] = rb['default']
        probe('rebuilt-with-override')
    # --- C15: Composite.initial_state()/default_state() -------------------------
    init = _dec(case.get('init') or {})
    expected_init_given = copy.deepcopy(init)
    if case['opts'].get('composite_init'):
        if 'composite_exc' in run.extra:
            return [V('C15', 'C15.composite-state', 'exception',
                      'Composite.initial_state()/default_state() raised %s' % run.extra['composite_exc'])]
        exp_default = {}
        exp_initial = {}
        for spec in case['procs']:
            Q, schema, topo = decl[spec['name']]
            pinit = spec.get('init') or {}
            for e in resolve(Q, schema, topo):
                if isinstance(e, Var):
                    harness.assoc(exp_default, list(e.abs), _dec(e.schema.get('_default')))
                    given = get_in(pinit, e.spath)
                    if given is not None:
                        harness.assoc(exp_initial, list(e.abs), _dec(given))
        # explicit initial state wins over the processes' own initial states
        def merge(a, b):
            for k, v in b.items():
                if isinstance(v, dict) and isinstance(a.get(k), dict):
                    merge(a[k], v)
                else:
                    a[k] = copy.deepcopy(v)
            return a
        exp_initial = merge(exp_initial, init)
        got_default = run.extra.get('composite_default')
        got_initial = run.extra.get('composite_initial')
        ls = set(m.val)
        got_default = _strip_star(got_default)
        if not _flat_eq(flat(_strip_probe(got_default), ls), flat(exp_default, ls)):
            return [V('C15', 'C15.composite-state', 'default',
                      'Composite.default_state() = %r, expected %r' % (got_default, exp_default))]
        if not _flat_eq(flat(_strip_probe(got_initial), ls), flat(exp_initial, ls)):
            return [V('C15', 'C15.composite-state', 'initial',
                      'Composite.initial_state() = %r, expected %r' % (got_initial, exp_initial))]
        # ... and the explicit state of the first call must not have stuck to the composite
        exp_again = {}
        for spec in case['procs']:
            Q, schema, topo = decl[spec['name']]
            pinit = spec.get('init') or {}
            for e in resolve(Q, schema, topo):
                if isinstance(e, Var):
                    given = get_in(pinit, e.spath)
                    if given is not None:
                        harness.assoc(exp_again, list(e.abs), _dec(given))
        # (what the composite holds itself stays, what the config of the first call gave does not)
        exp_again = merge(exp_again, _dec(split_init(case, case.get('init') or {})[0]))
        got_again = run.extra.get('composite_initial_again')
        if not _flat_eq(flat(_strip_probe(got_again), ls), flat(exp_again, ls)):
            return [V('C15', 'C15.composite-state', 'initial-second-call',
                      'Composite.initial_state() after an earlier call with an explicit initial state = %r, '
                      'expected %r' % (got_again, exp_again))]
        probe('composite-state-checked')
        expected_init_given = exp_initial
    apply_initial(m, expected_init_given)
    if run.exc is not None and run.exc[0] == -1:
        return [V('C15', 'engine-exception', run.exc[1], 'construction raised: %s' % run.exc[2])]

    specs = {s['name']: s for s in case['procs']}
    pending = {}     # (uid, n) -> NU event
    first_row = True
    batch_targets = []
    batch_multi = False
    leafset = set(m.val)

    def compare_state(snap, seq, where):
        nonlocal batch_targets, batch_multi
        if snap is None:
            return None
        got = flat(_strip_probe(snap), leafset)
        exp = dict(m.val)
        exp.update(m.markers)
        bad = []
        parents = set(q[:-1] for q in exp)
        for p_ in set(got) | set(exp):
            if p_ not in got or p_ not in exp:
                if p_ in got and (_empty(got[p_]) or got[p_] is None):
                    continue      # an empty store node (a glob store without children, a node
                                  # established on the way of a `_path`)
                if p_ in got and p_[:-1] not in parents:
                    continue      # an undeclared node outside every declared store (it can only
                                  # hold what the initial state put there)
                bad.append(p_)
            elif not values_equal(got[p_], exp[p_]):
                bad.append(p_)
        if not bad:
            batch_targets = []
            batch_multi = False
            return None
        bad.sort()
        tset = set(batch_targets)
        detail = '; '.join('%s: real %r, model %r' % ('/'.join(map(str, p_)), got.get(p_, '<absent>'),
                                                       exp.get(p_, '<absent>')) for p_ in bad[:4])
        if where == 'init':
            kind = 'default'
            p0 = bad[0]
            if get_in(expected_init_given, p0) is not None:
                kind = 'given-value'
            elif p0 not in got:
                kind = 'missing'
            return V('C15', 'C15.initial-state', kind, 'after construction: ' + detail, seq)
        if all(p_ in tset for p_ in bad):
            if batch_multi and all(p_ in tainted for p_ in bad):
                return V('C06', 'C06.multi-update-lost', 'dict-leaf-update',
                         'several port variables wired to one node, dictionary-valued updates '
                         'merged key by key: ' + detail, seq)
            if batch_multi and any(p_ in multi_nodes for p_ in bad):
                return V('C06', 'C06.multi-update-lost', 'plain',
                         'several port variables wired to one node: ' + detail, seq)
            upd = (m.attr.get(bad[0]) or {}).get('updater') or 'accumulate'
            return V('C08', 'C08.updater', upd, 'after the batch: ' + detail, seq)
        return V('C06', 'C06.wrong-node', 'frame' if any(p_ not in tset for p_ in bad) else 'plain',
                 'after the batch (targets %r): %s' % (sorted(tset)[:4], detail), seq)

    multi_nodes = set()
    tainted = set()     # nodes hit by colliding dictionary-valued leaf updates (known finding)

    def targets_of(name, update):
        Q, schema, topo = decl[name]
        targets = {}
        for e in resolve(Q, schema, topo):
            if isinstance(e, Var):
                uv = _get_update(update, e.spath)
                if uv is not _MISSING:
                    targets.setdefault(e.abs, []).append(uv)
            else:
                gu = _get_update(update, e.spath) if e.spath else update
                if gu is _MISSING or not isinstance(gu, dict):
                    continue
                for child in list(gu.keys()):
                    if child not in m.children(e.base):
                        continue
                    for ce in glob_child_entries(e, child):
                        uv = _get_update(update, ce.spath)
                        if uv is not _MISSING:
                            targets.setdefault(ce.abs, []).append(uv)
        return targets

    for ev in run.log:
        k = ev['k']
        seq = ev['seq']
        if k in ('POLL', 'COND', 'NU'):
            name = ev['uid'].split('#')[0]
            if name not in specs:
                continue
            snap = ev.get('snap')
            if snap is not None:
                err = compare_state(snap, seq, 'callback')
                if err:
                    return [err]
            Q, schema, topo = decl[name]
            want = m.view(Q, schema, topo)
            view = dict(ev.get('view') or {})
            view.pop('probe', None)
            if not values_equal(view, want):
                shape = _shape(view) != _shape(want)
                return [V('C07' if shape else 'C06',
                          'C07.view-shape' if shape else 'C06.read-node',
                          _view_disc(view, want),
                          '%s of %s: states %r, expected %r' % (k, ev['uid'], view, want), seq)]
            probe('view-checked')
            if k == 'NU':
                pending[(ev['uid'], ev['n'])] = ev
        elif k == 'APPLY':
            u = ev['uid']
            if not (isinstance(u, (tuple, list)) and len(u) == 2):
                continue
            nu = pending.pop((u[0], u[1]), None)
            if nu is None:
                continue
            name = u[0].split('#')[0]
            targets = targets_of(name, nu['update'])
            for abs_, ups in targets.items():
                if len(ups) > 1:
                    batch_multi = True
                    multi_nodes.add(abs_)
                    probe('multi-wired-update')
                    if any(isinstance(x, dict) for x in ups):
                        tainted.add(abs_)
                for uv in ups:
                    a = m.attr[abs_]
                    try:
                        m.val[abs_] = wmodel.apply_leaf(m.val[abs_], _dec(uv), a['updater'], _dec(a['default']),
                                                        a.get('units'))
                    except Exception as e:
                        raise harness.HarnessError('model updater failed: %r' % (e,))
                    if isinstance(uv, dict) and '_updater' in uv:
                        probe('per-update-updater')
                batch_targets.append(abs_)
            probe('update-folded')
        elif k == 'MUTATED':
            return [V('C08', 'C08.update-mutated', 'plain',
                      'the update object returned by %s (interval %d) was modified: %r -> %r' % (
                          ev['uid'], ev['n'], ev['before'], ev['after']), seq)]
        elif k == 'EMIT' and ev.get('table') == 'history':
            err = compare_state(ev.get('snap'), seq, 'init' if first_row else 'emit')
            if err:
                return [err]
            if first_row:
                probe('initial-state-checked')
            first_row = False
            # C12 clause: the row is the emit-flag projection of the state
            row = {kk: vv for kk, vv in ev['row'].items() if kk != 'time'}
            got = flat(row, leafset)
            got = {p_: v for p_, v in got.items() if not _empty(v)}
            exp = {p_: m.val[p_] for p_ in m.val if (m.attr.get(p_) or {}).get('emit')}
            def eq_(p_):
                at = m.attr.get(p_) or {}
                if at.get('serializer') == 'verif_ser_tag':
                    return got[p_] == 'tag:%r' % (exp[p_],)
                if at.get('serializer') == 'verif_ser_qtag':
                    # in the variable's unit: that of its declared default
                    du = _dec(at.get('default')).units
                    return got[p_] == qtag(exp[p_].to(du))
                return _emit_equal(got[p_], exp[p_], at.get('units'))
            if set(got) != set(exp) or any(not eq_(p_) for p_ in exp):
                extra = sorted(set(got) - set(exp))
                missing = sorted(set(exp) - set(got))
                diff = [p_ for p_ in exp if p_ in got and not eq_(p_)]
                return [V('C12', 'C12.row-content', 'extra' if extra else ('missing' if missing else 'value'),
                          'row at %r: extra %r missing %r different %r' % (
                              ev['row'].get('time'), extra[:3], missing[:3],
                              [(p_, got[p_], exp[p_]) for p_ in diff[:3]]), seq)]
    if run.exc is not None:
        for (uid_, n_), nu in pending.items():
            tg = targets_of(uid_.split('#')[0], nu['update'])
            if any(len(ups) > 1 and any(isinstance(x, dict) for x in ups) for ups in tg.values()):
                return [V('C06', 'C06.multi-update-lost', 'dict-leaf-update',
                          'several port variables wired to one node, dictionary-valued updates: '
                          'applying the update of %s raised %s' % (uid_, run.exc[1]))]
        return [V('C06', 'engine-exception', run.exc[1], 'op %d raised: %s' % (run.exc[0], run.exc[2]))]
    return out


_MISSING = object()


def _get_update(update, spath):
    node = update
    for k in spath:
        if not isinstance(node, dict) or k not in node:
            return _MISSING
        node = node[k]
    return node


def _dec_keep(v):
    return copy.deepcopy(v)


def _strip_probe(snap):
    if isinstance(snap, dict) and 'verif_probe' in snap:
        snap = dict(snap)
        snap.pop('verif_probe')
    return snap


def _strip_star(d):
    """default_state() lists glob sub-schema defaults under a '*' key; the
    property says nothing about them."""
    if not isinstance(d, dict):
        return d
    return {k: _strip_star(v) for k, v in d.items() if k != '*'}


def _empty(v):
    return isinstance(v, dict) and not v


def _flat_eq(a, b):
    a = {k: v for k, v in a.items() if not _empty(v)}
    b = {k: v for k, v in b.items() if not _empty(v)}
    return set(a) == set(b) and all(values_equal(a[k], b[k]) for k in a)


def _emit_equal(got, exp, units=None):
    if isinstance(exp, list) and exp and all(wmodel._is_qty(x) for x in exp):
        # a list of quantities: every element through the quantity serializer, in the declared units
        return isinstance(got, list) and len(got) == len(exp) and all(
            _emit_equal(g, x, units) for g, x in zip(got, exp))
    if wmodel._is_qty(exp):
        # emitted through the quantity serializer, in the declared units
        want = exp.to(units) if units else exp
        if not isinstance(got, str) or not got.startswith('!units['):
            return False
        try:
            from vivarium.library.units import units as U
            q = U(got[len('!units['):-1])
        except Exception:
            return False
        return values_equal(q, want)
    try:
        import numpy as np
        if isinstance(exp, np.ndarray):
            exp = exp.tolist()
        if isinstance(got, np.ndarray):
            got = got.tolist()
    except ImportError:  # pragma: no cover
        pass
    return values_equal(got, exp)


def _shape(v):
    if isinstance(v, dict):
        return {k: _shape(x) for k, x in v.items()}
    return None


def _view_disc(view, want):
    sv, sw = _shape(view), _shape(want)
    if sv == sw:
        return 'value'

    def keys(d, p=()):
        out = set()
        if isinstance(d, dict):
            for k, v in d.items():
                out.add(p + (k,))
                out |= keys(v, p + (k,))
        return out
    kv, kw = keys(sv), keys(sw)
    if kv - kw:
        return 'extra-keys'
    return 'missing-keys'


def validate(case):
    if not case['ops'] or not case['procs']:
        raise harness.HarnessError('empty case')
    for op in case['ops']:
        if op[1] < 1:
            raise harness.HarnessError('zero interval')
    for s in case['procs']:
        if any(v < 1 for v in s['ts']['vals']) or not s['ts']['vals']:
            raise harness.HarnessError('bad timestep')
    # the generated wiring must resolve inside the tree, and a glob store
    # holds nothing but its children
    try:
        leaves_, bases, procs_ = set(), set(), set()
        for s in case['procs']:
            procs_.add(tuple(s['path']))
            for e in resolve(tuple(s['path'][:-1]), s['schema'], _tuplify(s['topology'])):
                if isinstance(e, Var):
                    leaves_.add(e.abs)
                else:
                    bases.add(e.base)
    except Exception as e:
        raise harness.HarnessError('ill-formed wiring: %r' % (e,))
    for b in bases:
        if any(p_[:len(b)] == b and len(p_) <= len(b) + 1 for p_ in leaves_ | procs_):
            raise harness.HarnessError('glob store holds plain variables or processes')
        if any(p_[:len(b)] == b for p_ in procs_):
            raise harness.HarnessError('process inside a glob store')
    for a in leaves_:
        for b in leaves_:
            if a != b and b[:len(a)] == a:
                raise harness.HarnessError('a leaf below a leaf')


NONTRIVIAL = {
    'C06': ('update-folded',),
    'C07': ('view-checked',),
    'C08': ('update-folded',),
    'C15': ('initial-state-checked',),
    'C12': ('update-folded',),
    'C04': ('perm-differential',),
}


def wiring_shape(case, run):
    import hashlib
    h = hashlib.blake2b(digest_size=8)
    for s in case['procs']:
        h.update(repr((s['path'], sorted(s['schema']), repr(s['topology']))).encode())
    h.update(kernel.shape_of(run.log).to_bytes(8, 'big'))
    return int.from_bytes(h.digest(), 'big')


def evaluate(case, prop=None):
    validate(case)
    run = execute(case)
    stats = {}
    vs = check(case, run, stats)
    executions = 1
    probes = stats.get('probes', {})
    if prop in (None, 'C04') and not vs and 'multi' not in case.get('swarm', []) \
            and _commuting(case) and not run.budget_hit:
        run_p = execute(case, perm=derive(case['seed'], 'perm'))
        executions += 1
        vs += kernel.check_c04_perm(case, run, run_p)
        probes['perm-differential'] = 1
    keys = NONTRIVIAL.get(prop) or ('update-folded',)
    final_T = 0
    for ev in reversed(run.log):
        final_T = ev['T']
        break
    return {
        'violations': vs, 'probes': probes,
        'nontrivial': any(probes.get(k) for k in keys),
        'shape': wiring_shape(case, run), 'events': len(run.log),
        'sim_seconds': final_T, 'faults': {}, 'executions': executions,
        'digest': run.digest,
    }


def _commuting(case):
    """Permutation differential only when every shared leaf has a commuting
    updater (accumulate on numbers) or a single writer."""
    pool = {tuple(p_): a for p_, a in case['pool']}
    gsub = {tuple(g): sub for g, sub in case['gsub']}
    for a in list(pool.values()) + [x for sub in gsub.values() for x in sub.values()]:
        if a['kind'] not in ('acc_int', 'acc_float', 'null'):
            return False
    for s in case['procs']:
        for w in s.get('writes', []):
            for v in w['vals']:
                if isinstance(v, dict) and '_updater' in v:
                    return False
    return True
