"""Command line of the deterministic-simulation checks.

    run check <Cnn> [--tier quick|thorough] [--runs N] [--secs S] [--workers W]
    run replay <file>
    run selftest determinism [--n N]
"""

import argparse
import json
import os
import subprocess
import sys
import time

VERIF = os.path.dirname(os.path.dirname(os.path.abspath(__file__)))
sys.path.insert(0, VERIF)
from dst.rec import HarnessError  # noqa: E402

COMPONENTS = {
    'real': ['vivarium.core.engine.Engine', 'vivarium.core.store.Store',
             'vivarium.core.process.Process/Step/ParallelProcess',
             'vivarium.core.process._handle_parallel_process',
             'vivarium.core.composer.Composite/Composer',
             'vivarium.core.registry (updaters, dividers)',
             'vivarium.core.emitter.RAMEmitter',
             'vivarium.processes.timeline.TimelineProcess',
             'vivarium.library.topology', 'vivarium.library.dict_utils',
             'pickle of everything that crosses a worker pipe'],
    'stub': ['multiprocessing context / Pipe / Process (SimMP: in-process '
             'pipes, baton-passing threads, seeded choice of who runs)',
             'operating system'],
    'scripted': ['all user processes and steps (dst.parties), driven by '
                 'seeded choice streams'],
    'not_exercised': ['DatabaseEmitter/MongoDB', 'plots', 'CLI control',
                      'profile=True'],
}

# runs per tier (split over the property's profiles by share)
TIER_RUNS = {
    'quick': {'default': 20000, 'C01': 40000, 'C02': 40000, 'C03': 40000, 'C04': 20000, 'C05': 20000,
              'C06': 25000, 'C07': 16000, 'C08': 25000, 'C15': 25000, 'C09': 10000, 'C10': 7000,
              'C11': 10000, 'C12': 20000, 'C13': 4500, 'C16': 12000, 'C19': 40000},
    'thorough': {'default': 400000, 'C01': 800000, 'C02': 800000, 'C03': 800000, 'C04': 400000,
                 'C05': 400000, 'C06': 500000, 'C07': 300000, 'C08': 500000, 'C15': 500000,
                 'C09': 200000, 'C10': 140000, 'C11': 200000, 'C12': 400000, 'C13': 90000,
                 'C16': 400000, 'C19': 800000},
}
# wall-clock caps; the run counts above are meant to bind (the quick cap only matters on a loaded machine)
TIER_SECS = {'quick': 200, 'thorough': 2400}


def _signature(v):
    return (v['prop'], v['rule'], v['disc'])


def load_findings():
    p = os.path.join(VERIF, 'known_findings.json')
    if not os.path.exists(p):
        return []
    with open(p) as f:
        return json.load(f).get('findings', [])


def evaluate_case(case, prop):
    from dst import profiles
    prof = profiles.get(case['profile'])
    return prof.evaluate(json.loads(json.dumps(case)), prop=prop)


def first_violation(case, prop):
    res = evaluate_case(case, prop)
    for v in res['violations']:
        if v['prop'] == prop:
            return v, res
    return None, res


def run_sig(case, prop):
    v, _ = first_violation(case, prop)
    if v is None or v['prop'] != prop:
        return None
    return _signature(v)


def write_replay(prop, seed, case, v, digest, extra=None):
    d = os.path.join(VERIF, 'replays')
    os.makedirs(d, exist_ok=True)
    path = os.path.join(d, '%s-%s.json' % (prop, seed))
    with open(path, 'w') as f:
        json.dump({'property': prop, 'seed': seed,
                   'expect': {'prop': v['prop'], 'rule': v['rule'], 'disc': v['disc']},
                   'detail': v['detail'], 'digest': digest, 'case': case,
                   'extra': extra or {}}, f, indent=1)  # key order is part of the case
    return path


def replay_file(path, quiet=False):
    with open(path) as f:
        rp = json.load(f)
    prop = rp['property']
    try:
        v, res = first_violation(rp['case'], prop)
    except HarnessError as e:
        if not quiet:
            print('replay: the case is not well-formed for the current generator: %s' % e)
        return False, True, None
    exp = rp['expect']
    same = (v is not None and v['prop'] == exp['prop'] and v['rule'] == exp['rule']
            and v['disc'] == exp['disc'])
    same_digest = (rp.get('digest') in (None, res.get('digest')))
    if not quiet:
        if v is not None:
            print('replay: %s %s [%s]: %s' % (v['prop'], v['rule'], v['disc'], v['detail']))
        else:
            print('replay: no violation')
        print('replay: signature %s, digest %s' % (
            'reproduced' if same else 'NOT reproduced',
            'equal' if same_digest else 'DIFFERENT'))
    return same, same_digest, v


def cmd_replay(args):
    same, same_digest, v = replay_file(args.file)
    if same:
        with open(args.file) as f:
            prop = json.load(f)['property']
        print('VIOLATION property=%s replay=%s' % (prop, args.file))
        return 1
    return 0


def fresh_replay(path):
    """Replay in a fresh interpreter; returns True if it reproduces."""
    env = dict(os.environ)
    p = subprocess.run(
        [sys.executable, os.path.join(VERIF, 'dst', 'main.py'), 'replay', path],
        env=env, capture_output=True, text=True, timeout=600)
    if p.returncode == 1 and 'signature reproduced' in p.stdout:
        if 'digest equal' not in p.stdout:
            print('note: the violation reproduces in a fresh interpreter with a different event-log digest '
                  '(the code under test is not deterministic for this case)')
        return True
    return False


def cmd_check(args):
    from dst import batch, profiles, shrink
    t_begin = time.time()
    prop = args.prop
    tier = args.tier or os.environ.get('VERIF_TIER') or 'quick'
    base_seed = int(os.environ.get('VERIF_SEED', '1') or 1)
    if args.seed is not None:
        base_seed = args.seed
    print('VERIF_SEED=%d property=%s tier=%s' % (base_seed, prop, tier))
    if prop not in profiles.PROPERTY_PROFILES:
        print('property %s has no check (see MANIFEST not_applicable)' % prop)
        return 2
    # import the code under test before forking the pool
    import vivarium  # noqa
    findings = [f for f in load_findings() if f['property'] == prop]
    if args.noknown:
        findings = []
    known = [f for f in findings if f.get('status') == 'known']
    known_sigs = set()
    for f in known:
        sig = (prop, f['signature']['rule'], f['signature']['discriminator'])
        ex = os.path.join(VERIF, f['example'])
        same, _, _ = replay_file(ex, quiet=True)
        if same:
            print('KNOWN-FINDING: property=%s %s' % (prop, f['what']))
            known_sigs.add(sig)
        else:
            print('note: known finding %s no longer reproduces' % f['id'])
            known_sigs.add(sig)
    total_runs = args.runs or TIER_RUNS[tier].get(prop, TIER_RUNS[tier]['default'])
    secs = args.secs or TIER_SECS[tier]
    agg_all = batch.new_agg()
    per_profile = {}
    per_profile_digests = {}
    new_violation = None
    for pname, share in profiles.PROPERTY_PROFILES[prop]:
        runs = max(1, int(total_runs * share))
        t0 = time.time()
        agg = batch.search(pname, prop, base_seed, runs, workers=args.workers,
                           max_secs=secs * share + 5,
                           stop_on_violation=not (args.all or args.want),
                           opts={'known': [list(k) for k in known_sigs]})
        per_profile_digests[pname] = dict(agg['digests'])
        per_profile[pname] = {
            'runs': agg['evaluations'], 'wall_s': round(time.time() - t0, 2),
            'distinct_nontrivial': len(agg['shapes'])}
        batch.merge(agg_all, agg)
    agg = agg_all
    # determinism spot check: the first runs of every profile are executed again in this
    # process; their event-log digests must equal the ones computed by the pool workers
    digest_pairs = 0
    for pname, share in profiles.PROPERTY_PROFILES[prop]:
        prof = profiles.get(pname)
        for i in range(0, 8):
            d = per_profile_digests.get(pname, {}).get(i)
            if d is None:
                continue
            from dst.rng import derive
            case = json.loads(json.dumps(prof.gen_case(derive(base_seed, pname, i))))
            try:
                again = prof.evaluate(json.loads(json.dumps(case)), prop=prop).get('digest')
            except HarnessError:
                continue
            digest_pairs += 1
            if again != d:
                print('HARNESS-ERROR: run %d of profile %s is not deterministic (digest %s in a worker, '
                      '%s here)' % (i, pname, d, again))
                return 2
    # classify violations
    known_hits = dict(agg['known_hits'])
    unlisted = []
    for rec in sorted(agg['violations'], key=lambda r: r['run']):
        sig = _signature(rec['v'])
        if sig in known_sigs:
            known_hits[sig[1]] = known_hits.get(sig[1], 0) + 1
            continue
        if args.want and args.want not in ('%s:%s' % (sig[1], sig[2])):
            continue
        unlisted.append(rec)
    exit_code = 0
    shrink_log = {}
    replay_path = None
    if unlisted:
        rec = unlisted[0]
        sig = _signature(rec['v'])
        small = shrink.shrink(rec['case'], sig, lambda c: run_sig(c, prop),
                              max_exec=args.shrink, log=shrink_log)
        v, res = first_violation(small, prop)
        if v is None or _signature(v) != sig:
            small = rec['case']
            v, res = first_violation(small, prop)
        if v is None:
            print('HARNESS-ERROR: a violation reported by a worker does not reproduce in the '
                  'main process (seed %s): %s %s' % (rec['seed'], sig, rec['v']['detail'][:300]))
            return 2
        replay_path = write_replay(prop, rec['seed'], small, v, res.get('digest'),
                                   {'run': rec['run'], 'base_seed': base_seed})
        ok = fresh_replay(replay_path)
        print('violation: %s %s [%s]' % sig)
        print('  ' + v['detail'].replace('\n', '\n  '))
        if ok:
            print('VIOLATION property=%s replay=%s' % (prop, replay_path))
            exit_code = 1
        else:
            print('HARNESS-ERROR: minimised case does not replay in a fresh '
                  'interpreter (%s)' % replay_path)
            exit_code = 2
    if agg['harness_errors']:
        print('harness errors: %d (first: %s)' % (
            len(agg['harness_errors']), agg['harness_errors'][0][1][-500:]))
        if len(agg['harness_errors']) > max(3, agg['evaluations'] // 200) and exit_code == 0:
            exit_code = 2
    if agg['evaluations'] == 0 and exit_code == 0:
        exit_code = 2
    real_cases = None
    if prop == 'C13' and tier == 'thorough' and exit_code == 0 and not args.runs:
        # confirmation outside the search: a few cases on the real forkserver transport must
        # give the trajectory of the serial run and of the simulated transport
        from dst import parallel
        try:
            real_cases, problems = parallel.real_spot(n=4, base_seed=base_seed)
        except Exception as e:
            real_cases, problems = 0, ['real-transport spot check failed: %r' % (e,)]
        for pr in problems:
            print('HARNESS-ERROR: real forkserver spot check: %s' % pr)
        if problems:
            exit_code = 2
    wall = time.time() - t_begin
    distinct = len(agg['shapes'])
    ev = {
        'property_id': prop, 'tier': tier, 'seed': base_seed,
        'level': 'exploration',
        'coverage': {
            'evaluations': agg['evaluations'],
            'distinct_nontrivial': distinct,
            'rule': ('cases are generated from derive(VERIF_SEED, profile, i) with swarm-'
                     'randomised sizes/fault kinds; a run is non-trivial for this property if at '
                     'least one of its probes fired (see probes); distinct = distinct interleaving '
                     'shapes = hash of the ordered sequence of quiet polls, invocations, applications, '
                     'driver ops, emits (and worker scheduling choices) of the run'),
            'samples': [s for s in agg['samples'][:3]],
            'executions': agg['executions'],
            'nontrivial_runs': agg['nontrivial'],
            'runs_per_hour': int(agg['evaluations'] / max(wall, 1e-6) * 3600),
            'simulated_seconds': round(agg['sim_seconds'], 3),
            'events': agg['events'],
            'faults_fired': agg['faults'],
            'probes': agg['probes'],
            'known_finding_hits': {str(k): v for k, v in known_hits.items()},
            'other_oracles': agg['other'],
            'per_profile': per_profile,
            'components': COMPONENTS,
            'shrink_executions': shrink_log.get('shrink_executions', 0),
            'determinism_digest_pairs_checked': digest_pairs,
            'real_forkserver_cases_compared': real_cases,
            'harness_errors': len(agg['harness_errors']),
            'cut_short_by_time_cap': agg['cut_short'],
            'seeds': {'base': base_seed, 'runs': agg['evaluations']},
        },
        'assumptions': ASSUMPTIONS.get(prop, []) + COMMON_ASSUMPTIONS,
        'wall_s': round(wall, 2),
        'violations': len(unlisted),
    }
    if not args.noevidence:
        os.makedirs(os.path.join(VERIF, 'evidence'), exist_ok=True)
        with open(os.path.join(VERIF, 'evidence', prop + '.json'), 'w') as f:
            json.dump(ev, f, indent=1, default=str)
    print('%s: %d runs (%d non-trivial, %d distinct shapes) in %.1fs; violations=%d known_hits=%s other=%s' % (
        prop, agg['evaluations'], agg['nontrivial'], distinct, wall, len(unlisted),
        known_hits, agg['other']))
    zero = [k for k in REQUIRED_PROBES.get(prop, []) if not agg['probes'].get(k)]
    if zero and exit_code == 0 and tier == 'quick' and not args.runs:
        print('HARNESS-ERROR: probes stuck at zero: %s' % zero)
        exit_code = 2
    return exit_code


COMMON_ASSUMPTIONS = [
    'sampling, not enumeration: a clean batch is evidence, not proof',
    'scripted parties (dst.parties) stand for arbitrary user processes',
    'PYTHONHASHSEED=0; garbage collection disabled during a run',
]
ASSUMPTIONS = {}
REQUIRED_PROBES = {}


def cmd_selftest(args):
    from dst import selftest
    return selftest.main(args)


def main(argv=None):
    ap = argparse.ArgumentParser()
    sub = ap.add_subparsers(dest='cmd')
    c = sub.add_parser('check')
    c.add_argument('prop')
    c.add_argument('--tier', default=None)
    c.add_argument('--runs', type=int, default=None)
    c.add_argument('--secs', type=float, default=None)
    c.add_argument('--seed', type=int, default=None)
    c.add_argument('--workers', type=int, default=None)
    c.add_argument('--shrink', type=int, default=400)
    c.add_argument('--noevidence', action='store_true',
                   help='development aid: do not rewrite evidence/ (used by selftests against scratch copies)')
    c.add_argument('--noknown', action='store_true',
                   help='development aid: ignore known_findings.json (to regenerate an example)')
    c.add_argument('--want', default=None,
                   help='development aid: only report violations whose rule:disc contains this')
    c.add_argument('--all', action='store_true',
                   help='development aid: do not stop the search at the first violation')
    r = sub.add_parser('replay')
    r.add_argument('file')
    s = sub.add_parser('selftest')
    s.add_argument('what')
    s.add_argument('--n', type=int, default=40)
    s.add_argument('--props', default=None)
    args = ap.parse_args(argv)
    if args.cmd == 'check':
        return cmd_check(args)
    if args.cmd == 'replay':
        return cmd_replay(args)
    if args.cmd == 'selftest':
        return cmd_selftest(args)
    ap.print_help()
    return 2


if __name__ == '__main__':
    sys.path.insert(0, VERIF)
    # avoid the `python file.py` double-import trap: run through the package
    from dst import main as _m
    sys.exit(_m.main())
