"""Common execution machinery: build an Engine from plain dictionaries,
drive it through a list of ops, record everything, classify the outcome."""

import gc
import sys
import traceback

from dst.rec import (
    REC, SimBudgetExceeded, HarnessError, install_registries, install_monitor, set_budget)


def tval(u, unit):
    """Grid time: u * num / den, correctly rounded."""
    num, den = unit
    return (u * num) / den


def assoc(d, path, value):
    for k in path[:-1]:
        d = d.setdefault(k, {})
    d[path[-1]] = value


def norm_exc(e):
    """Normalised head of an exception for signatures."""
    import re
    msg = str(e).split('\n')[0]
    msg = re.sub(r'0x[0-9a-f]+', '0x', msg)
    msg = re.sub(r'[-+]?\d+\.\d+(e[-+]?\d+)?', 'F', msg)
    msg = re.sub(r'\d+', 'N', msg)
    return '%s:%s' % (type(e).__name__, msg[:60])


class Run:
    """Result of one execution."""

    def __init__(self):
        self.log = None
        self.engine = None
        self.exc = None          # (op index, normalised, traceback text)
        self.budget_hit = False
        self.deadlock_hit = False
        self.jumps = []          # per op
        self.emitter = None
        self.unraisable = []
        self.extra = {}


def _unraisable_hook(args):
    if not REC.active:
        return      # late garbage of an earlier run: not part of any history
    REC.unraisable.append(
        '%s:%s' % (getattr(args.exc_type, '__name__', '?'), args.exc_value))


def begin_run(t0=0.0, seed=0, simmp_seed=None):
    # F8: the global generators used by the random dividers are owned by the
    # simulation; laws are checked for whichever outcome is drawn
    import random
    import numpy as np
    if simmp_seed is not None:
        # flush garbage of earlier runs now (their ParallelProcess.__del__ must
        # not fire inside this run's history)
        REC.active = False
        gc.collect()
    random.seed(seed & 0xFFFFFFFF)
    np.random.seed(seed & 0xFFFFFFFF)
    install_registries()
    install_monitor()
    sys.monitoring.restart_events()
    REC.reset()
    REC.t0 = t0
    REC.active = True
    gc.disable()
    sys.unraisablehook = _unraisable_hook
    if simmp_seed is not None:
        from dst import simmp
        simmp.begin(simmp_seed)


def end_run():
    from dst import simmp
    if simmp.SIM.active:
        REC.extra['mp'] = {
            'procs': [{'name': p.name, 'started': p.started, 'finished': p.task.finished,
                       'joined': p.joined, 'closed': p.closed, 'exc': repr(p.exc) if p.exc else None}
                      for p in simmp.SIM.procs],
            'sync_points': simmp.SIM.sync_points, 'switches': simmp.SIM.switches,
            'worker_exc': list(simmp.SIM.worker_exc)}
        try:
            REC.extra['mp']['leftover'] = simmp.end()
        except Exception as e:
            REC.extra['mp']['leftover'] = ['TEARDOWN-FAILED %r' % (e,)]
    REC.active = False
    REC.budget = None
    gc.enable()


def make_engine(run, budget, **kwargs):
    """Construct the real Engine with REC.engine bound before __init__ runs
    (steps run and rows are emitted inside the constructor)."""
    from vivarium.core.engine import Engine
    eng = Engine.__new__(Engine)
    REC.engine = eng
    run.engine = eng
    kwargs.setdefault('emitter', {'type': 'verif_rec'})
    kwargs.setdefault('display_info', False)
    kwargs.setdefault('progress_bar', False)
    kwargs.setdefault('experiment_id', 'verif')
    REC.op = -1
    REC.ev('OPSTART', name='init', args=[])
    set_budget(budget)
    try:
        eng.__init__(**kwargs)
    except BaseException as e:  # noqa
        if isinstance(e, KeyboardInterrupt):
            raise
        run.exc = (-1, norm_exc(e), traceback.format_exc(limit=12))
        REC.ev('OPEND', name='init', exc=run.exc[1])
        run.jumps.append(REC.jumps)
        return None
    run.jumps.append(REC.jumps)
    REC.ev('OPEND', name='init', exc=None)
    run.emitter = REC.extra.get('emitter')
    return eng


def drive(run, eng, ops, unit, budget_fn, prec=None, first_index=0):
    """ops: list of [name, units, force?].  Stops at the first exception."""
    for i, op in enumerate(ops, first_index):
        REC.op = i
        name = op[0]
        start = eng.global_time
        if name in ('run_for', 'update'):
            interval = tval(op[1], unit)
            force = True if name == 'update' else bool(op[2])
            end = start + interval
            if prec is not None:
                # start and interval lie on the 10^-p grid, hence so does the
                # requested end; `start + interval` in floating point may not
                end = round(end, prec)
            REC.ev('OPSTART', name=name, interval=interval, force=force,
                   start=start, end=end)
        else:
            REC.ev('OPSTART', name=name, start=start)
        set_budget(budget_fn(op))
        REC.extra.pop('snap_cached', None)
        REC.extra.pop('ids_cached', None)
        try:
            if name == 'run_for':
                eng.run_for(interval, force)
            elif name == 'update':
                eng.update(interval)
            elif name == 'end':
                eng.end()
            elif name == 'gc':
                gc.collect()
            elif name == 'drop':
                # the caller lets go of the engine (see drop_engine)
                run.extra['drop'] = True
            else:
                raise ValueError(name)
        except BaseException as e:  # noqa
            if isinstance(e, KeyboardInterrupt):
                raise
            run.exc = (i, norm_exc(e), traceback.format_exc(limit=12))
            run.jumps.append(REC.jumps)
            REC.ev('OPEND', name=name, exc=run.exc[1], T=_safe_time(eng))
            return False
        run.jumps.append(REC.jumps)
        REC.ev('OPEND', name=name, exc=None)
    return True


def drop_engine(run):
    """F7: the engine is discarded without end(); garbage collection is
    the only thing left to stop the workers (ParallelProcess.__del__)."""
    run.engine = None
    run.emitter = None
    REC.engine = None
    REC.extra.pop('emitter', None)
    REC.extra.pop('loc_cache', None)
    REC._keep = []
    REC.ev('OPSTART', name='gc-after-drop')
    set_budget(5000000)
    try:
        gc.collect()
        gc.collect()
    except BaseException as e:  # noqa
        run.exc = (REC.op, norm_exc(e), traceback.format_exc(limit=12))
    REC.ev('OPEND', name='gc-after-drop', exc=run.exc[1] if run.exc else None)


def _safe_time(eng):
    return eng.__dict__.get('global_time', REC.t0)


def finish(run):
    run.log = REC.log
    run.budget_hit = REC.budget_hit
    run.deadlock_hit = REC.deadlock_hit
    run.unraisable = list(REC.unraisable)
    if REC.extra.get('harness_fault'):
        raise HarnessError('harness bookkeeping failed: %s' % REC.extra['harness_fault'])
    run.extra['mp'] = REC.extra.get('mp')
    run.digest = REC.digest()
    return run
