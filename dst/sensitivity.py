"""Sensitivity self-test: the machinery must be able to fail.

Each mutation is a small semantic change to a scratch copy of the vivarium
package (under /dev/shm, removed afterwards).  The property's check is run
against the copy and must exit 1 with a VIOLATION line.  `quiet` mutations are
behaviour-preserving edits that must NOT raise an alarm."""

import os
import shutil
import subprocess
import sys
import time

VERIF = os.path.dirname(os.path.dirname(os.path.abspath(__file__)))

E = 'vivarium/core/engine.py'
S = 'vivarium/core/store.py'
P = 'vivarium/core/process.py'
R = 'vivarium/core/registry.py'
T = 'vivarium/library/topology.py'
C = 'vivarium/core/composer.py'
TL = 'vivarium/processes/timeline.py'

MUTATIONS = [
    # id, property, file, old, new
    ('k-double-apply', 'C01', E, "                        advance['update'] = {}\n", ""),
    ('k-apply-strict', 'C01', E, "if advance['time'] <= self.global_time \\", "if advance['time'] < self.global_time \\"),
    ('k-apply-all-fronts', 'C01', E, "if advance['time'] <= self.global_time \\", "if True \\"),
    ('k-full-timestep', 'C02', E, "                        process_timestep = future - process_time\n", ""),
    ('k-timestep-fullstep', 'C02', E,
     "path, process, store, states, process_timestep)\n\n                            # update front",
     "path, process, store, states, future - self.global_time)\n\n                            # update front"),
    ('k-no-force-reset', 'C03', E, "                force_complete = False\n", "                pass\n"),
    ('k-quiet-not-advanced', 'C03', E,
     "                self.global_time = next_event\n                self._advance_quiet_paths(quiet_paths)\n",
     "                self.global_time = next_event\n"),
    ('k-quiet-else-not-advanced', 'C03', E,
     "                self.global_time = end_time\n                self._advance_quiet_paths(quiet_paths)\n",
     "                self.global_time = end_time\n"),
    ('k-no-timestep-cache', 'C03', E,
     "                        self.front[path]['timestep'] = process_timestep\n", ""),
    ('k-unrounded-advance', 'C03', E,
     "            next_time = round(next_time, self.global_time_precision)\n",
     "            pass\n"),
    ('c04-one-update-per-pass', 'C04', E, "                        paths.append(path)\n",
     "                        paths.append(path)\n                        break\n"),
    ('c12-emit-in-jump', 'C12', E,
     "                self.global_time = end_time\n                self._advance_quiet_paths(quiet_paths)\n",
     "                self.global_time = end_time\n                self._advance_quiet_paths(quiet_paths)\n                self._emit_store_data()\n"),
    ('c12-emit-before-steps', 'C12', E,
     "        self.run_steps()\n\n        # run the emitter\n        self._emit_configuration()\n        self._emit_store_data()\n",
     "        self._emit_configuration()\n        self._emit_store_data()\n        self.run_steps()\n"),
    ('c12-emit-ignores-flag', 'C12', S, "        if self.emit:\n            if self.serializer:",
     "        if self.emit or self.leaf:\n            if self.serializer:"),
    # structural
    ('s-add-overwrites', 'C09', S, "        if key in inner_keys:\n            raise Exception(", "        if False:\n            raise Exception("),
    ('s-move-keeps-source', 'C09', S, "        del self.get_path(source_path[:-1]).inner[source_path[-1]]\n\n        here = self.path_for()", "        here = self.path_for()"),
    ('s-flow-list', 'C10', E, "                assoc_path(self.flow, path, flow_update)", "                assoc_path(self.flow, path, flow_updates)"),
    # the progress record of a deleted process is dropped in two places (when its path is deleted, and
    # by the sweep at the start of every iteration): either one alone is masked by the other, so both go
    ('s-front-never-dropped', 'C10', E, ("            if path not in self.process_paths:\n                update = self.front.pop(path)['update']", '                del self.process_paths[path]\n                # Forget how far the process got and what it was still\n                # computing: a process created under the same path\n                # later, even in this batch, starts afresh.\n                advance = self.front.pop(path, None)'), ("            if False:\n                update = self.front.pop(path)['update']", '                del self.process_paths[path]\n                advance = None')),
    ('s-step-graph-not-pruned', 'C10', E, "                    self._step_graph.remove(path)\n                except nx", "                    pass\n                except nx"),
    ('s-new-process-at-zero', 'C10', E, "                    self.front[path] = empty_front(self.global_time)\n                process_time",
     "                    self.front[path] = empty_front(0)\n                process_time"),
    ('s-split-both-remainder', 'C11', R, "            return [half, half + remainder]", "            return [half + remainder, half + remainder]"),
    ('s-daughters-share-processes', 'C11', S, "                processes = copy.deepcopy(mother_processes)\n", "                processes = mother_processes\n"),
    ('s-initial-before-divided', 'C11', S, "            merged_initial_state = deep_merge(\n                copy.deepcopy(daughter_state),\n                daughter.get('initial_state', {}))",
     "            merged_initial_state = deep_merge(\n                dict(daughter.get('initial_state', {})), copy.deepcopy(daughter_state))"),
    ('s-branch-divider-ignored', 'C11', S, "        divider = self._get_divider()\n        if divider:", "        divider = self._get_divider() if not self.inner else None\n        if divider:"),
    ('s-quantity-not-halved', 'C11', R, "    elif isinstance(state, (float, Quantity)):\n        half = state/2", "    elif isinstance(state, (float, Quantity)):\n        half = state/2 if isinstance(state, float) else state"),
    ('s-inplace-front-kept', 'C10', E, "                self._add_process_path(process, path, new_flow)\n                # A process that replaces another one under the same\n                # path starts afresh as well.\n                advance = self.front.pop(path, None)",
     "                self._add_process_path(process, path, new_flow)\n                advance = None"),
    ('s-move-no-view-expire', 'C07', S, "                    deletions.extend(move_deletions)\n                    view_expire = True", "                    deletions.extend(move_deletions)"),
    ('s-steps-no-view-rebuild', 'C07', E, "            if view_expire:\n                self.state.build_topology_views()\n\n    def _send_updates", "            pass\n\n    def _send_updates"),
    ('w-glob-no-normalize', 'C06', T, "                    inner = normalize_path(outer + path + (child,))", "                    inner = outer + path + (child,)"),
    ('w-emit-no-unit-conversion', 'C12', S, "                if self.units:\n                    return self.serializer.serialize(\n                        self.value.to(self.units))", "                if False:\n                    pass"),
    ('w-units-not-normalised', 'C08', S, "                self.value = self.value.to(self.units)", "                pass"),
    ('w-inverse-ignores-path', 'C06', T, "                    inner = normalize_path(outer + path.pop('_path'))\n                else:\n                    inner = outer\n\n                # variables", "                    path.pop('_path')\n                    inner = outer\n                else:\n                    inner = outer\n\n                # variables"),
    # the defect fixed by 859861a, re-created: unlisted variables only routed when a `_path` is given
    ('w-unlisted-dropped-without-path', 'C06', T, "                if isinstance(value, dict):\n                    for update_key in value.keys():", "                if isinstance(value, dict) and '_path' in topology[key]:\n                    for update_key in value.keys():"),
    ('w-view-whole-store', 'C07', S, "            for key, subschema in schema.items():\n                path = topology.get(key)\n                if key == '*':", "            for key, subschema in list(schema.items()):\n                path = topology.get(key)\n                if isinstance(subschema, dict) and not (set(subschema) & self.schema_keys) and key != '*' and not isinstance(path, dict):\n                    node_ = self.get_path(path if path is not None else (key,))\n                    subschema = dict(subschema, **{k_: {} for k_ in (node_.inner if node_ else {})})\n                if key == '*':"),
    ('w-default-ignored', 'C15', S, "            if self.value is None:\n                self.value = self.default", "            if self.value is None:\n                self.value = self.default if not isinstance(self.default, int) or self.default < 40 else 0"),
    # parallel (hand-ported from seeded changes whose patches no longer apply)
    ('p-end-skips-steps', 'C13', S,
     "        elif isinstance(value, Store):\n            for subval in value.inner:\n                self.recursive_end_process(value[subval])",
     "        elif isinstance(value, Store):\n            for subval in value.inner:\n                if not (isinstance(value[subval].value, Process) and value[subval].value.is_step()):\n                    self.recursive_end_process(value[subval])"),
    ('p-override-ignored', 'C13', P, "        deep_merge(ports, self.schema_override)\n", "        deep_merge(ports, self._schema_override)\n"),
    ('p-end-not-draining', 'C13', P, "            self._command_result = self.parent.recv()\n        self.parent.send(('end', None, None))",
     "            pass\n        self.parent.send(('end', None, None))"),
    # hand-port of seeded change C07-r4-3 (its patch no longer applies after 04af454)
    ('w-store-entry-views-first', 'C07', E,
     "            self.state.set_value(self.initial_state)\n            # children of glob stores that the initial state creates\n            # start from their declared defaults, as in generate()\n            self.state.apply_defaults()\n            # build the processes' views\n            self.state.build_topology_views()\n",
     "            self.state.build_topology_views()\n            self.state.set_value(self.initial_state)\n            self.state.apply_defaults()\n"),
    ('p-stale-view', 'C13', P, "        self.parent.send((command, args, kwargs))\n\n    def get_command_result",
     "        if command == 'next_update':\n            self._v0 = getattr(self, '_v0', None) or args[1]\n            args = (args[0], self._v0)\n        self.parent.send((command, args, kwargs))\n\n    def get_command_result"),
    ('p-no-ended-guard', 'C13', P, "        # Only end once.\n        if self._ended:\n            return\n", "        # Only end once.\n"),
    ('p-engine-end-skips-steps', 'C13', E, "        apply_func_to_leaves(\n            self.steps, self._end_process_if_parallel)\n", ""),
    # timeline
    ('t-equal-time-replaces', 'C19', TL, "            merged.setdefault(time, {}).update(change)", "            merged[time] = dict(change)"),
    ('t-first-due-only', 'C19', TL, "        while self.timeline and time >= self.timeline[0][0]:", "        if self.timeline and time >= self.timeline[0][0]:"),
    ('t-strict-compare', 'C19', TL, "        while self.timeline and time >= self.timeline[0][0]:", "        while self.timeline and time > self.timeline[0][0]:"),
    ('t-unsorted', 'C19', TL, "        self.timeline = sorted(merged.items(), key=lambda event: event[0])", "        self.timeline = list(merged.items())"),
    ('t-earlier-event-wins', 'C19', TL, "                update = deep_merge(update, update_at_path)", "                update = deep_merge(update_at_path, update)"),
    ('t-merge-aliases-caller', 'C19', TL, "            merged.setdefault(time, {}).update(change)", "            if time in merged:\n                merged[time].update(change)\n            else:\n                merged[time] = change"),
    # round 8
    ('k-deferred-timestep-kept', 'C02', E, "                    process_timestep = self.front[path].pop('timestep', None)", "                    process_timestep = self.front[path].get('timestep')"),
    ('c-initial-state-aliases-process', 'C15', C, "            process_state = copy.deepcopy(process_state)\n", ""),
    # composites
    ('c-merge-no-copy', 'C16', C, "                deep_copy_internal(composite['processes']))", "                composite['processes'])"),
    ('c-merge-ignores-path', 'C16', C, "        merge_processes = assoc_in({}, path, merge_processes)\n", ""),
    ('c-override-all', 'C16', P, "    for key, override in overrides.items():\n        process = processes[key]\n        if isinstance(process, Process):\n            process.merge_overrides(override)",
     "    for key, override in overrides.items():\n        process = processes[key]\n        if isinstance(process, Process):\n            for other in processes.values():\n                if isinstance(other, Process):\n                    other.merge_overrides(override)"),
]

# dropped as observationally equivalent on the repaired tree (kept for the record, not run):
#   s-front-kept, s-deleted-front-kept: each of the two places that drop a deleted process's record masks the other
#   s-steps-not-deleted: a stale _step_paths entry is never consulted (the execution layers come from the step graph)
EQUIVALENT = [('s-steps-not-deleted', 'C10', 'E', '                del self._step_paths[path]\n', '                pass\n')]

QUIET = [
    ('q-layers-longest-path', E, "        layers = nx.topological_generations(self._graph)\n",
     "        depth = {}\n        for node in nx.topological_sort(self._graph):\n            depth[node] = max([depth[p] + 1 for p in self._graph.predecessors(node)], default=0)\n        layers = [[n for n in depth if depth[n] == d] for d in range(max(depth.values(), default=-1) + 1)]\n"),
    ('q-views-are-copies', S, "    if isinstance(states, Store):\n        return states.get_value()", "    if isinstance(states, Store):\n        return copy.deepcopy(states.get_value())"),
    ('q-batch-sorted-by-path', E, "                self._send_updates(updates)\n", "                updates = [u for _, u in sorted(zip(paths, updates), key=lambda pu: pu[0])]\n                self._send_updates(updates)\n"),
    ('q-comment', E, "            full_step = math.inf\n", "            full_step = math.inf  # reset\n"),
    ('q-rebuild-views-always', E,
     "        if view_expire:\n            self.state.build_topology_views()\n\n        self.run_steps()",
     "        self.state.build_topology_views()\n\n        self.run_steps()"),
]


def make_copy(tag):
    import vivarium
    src = os.path.dirname(os.path.dirname(os.path.abspath(vivarium.__file__)))
    dst = '/dev/shm/verif-mut-%d-%s' % (os.getpid(), tag)
    if os.path.exists(dst):
        shutil.rmtree(dst)
    os.makedirs(dst)
    shutil.copytree(os.path.join(src, 'vivarium'), os.path.join(dst, 'vivarium'),
                    ignore=shutil.ignore_patterns('__pycache__', '*.pyc'))
    return dst


def apply(dst, file, old, new):
    p = os.path.join(dst, file)
    s = open(p).read()
    olds, news = (old, new) if isinstance(old, tuple) else ((old,), (new,))
    for o, n in zip(olds, news):
        if s.count(o) < 1:
            raise RuntimeError('mutation anchor not found in %s: %r' % (file, o[:60]))
        s = s.replace(o, n, 1)
    open(p, 'w').write(s)


def run_check(dst, prop, runs):
    env = dict(os.environ)
    env['VERIF_REPO'] = dst
    env['PYTHONPATH'] = VERIF + ':' + dst
    t = time.time()
    # (the run count binds, not the wall clock: the verdict must not depend on the load)
    p = subprocess.run([os.path.join(VERIF, 'run'), 'check', prop, '--runs', str(runs),
                        '--secs', '900', '--noevidence'],
                       env=env, capture_output=True, text=True, timeout=3000)
    return p.returncode, p.stdout, time.time() - t


def main(args):
    only = args.props.split(',') if args.props else None
    runs = args.n if args.n != 40 else 6000
    bad = 0
    rows = []
    for mid, prop, file, old, new in MUTATIONS:
        if only and mid not in only and prop not in only:
            continue
        dst = make_copy(mid)
        try:
            apply(dst, file, old, new)
            rc, out, dt = run_check(dst, prop, runs)
        finally:
            shutil.rmtree(dst, ignore_errors=True)
        vline = [l for l in out.splitlines() if l.startswith('violation:')]
        ok = (rc == 1 and 'VIOLATION property=%s' % prop in out)
        rows.append((mid, prop, 'caught' if ok else 'MISSED rc=%d' % rc, vline[:1], round(dt, 1)))
        print('%-28s %s %-8s %s %.1fs' % (mid, prop, 'caught' if ok else 'MISSED(rc=%d)' % rc,
                                         vline[0][:90] if vline else '', dt))
        if not ok:
            bad += 1
            print(out[-600:])
    if not only or 'quiet' in only:
        from dst import profiles
        for mid, file, old, new in QUIET:
            dst = make_copy(mid)
            try:
                apply(dst, file, old, new)
                for prop in sorted(profiles.PROPERTY_PROFILES):
                    rc, out, dt = run_check(dst, prop, max(500, runs // 4))
                    ok = (rc == 0)
                    print('%-28s %s %-8s %.1fs' % (mid, prop, 'quiet' if ok else 'FALSE-ALARM(rc=%d)' % rc, dt))
                    if not ok:
                        bad += 1
                        print(out[-600:])
            finally:
                shutil.rmtree(dst, ignore_errors=True)
    print('sensitivity: %d problems' % bad)
    return 1 if bad else 0
