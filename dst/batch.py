"""Seeded batch search over many simulated runs, on all cores.

One integer (VERIF_SEED) fixes every run: run i of profile P executes the
Case generated from derive(VERIF_SEED, P, i)."""

import faulthandler
import json
import multiprocessing
import os
import sys
import time
import traceback
from concurrent.futures import ProcessPoolExecutor, as_completed

from dst.rng import derive
from dst.rec import HarnessError


def run_seed(profile_name, evaluate, gen_case, base_seed, i):
    seed = derive(base_seed, profile_name, i)
    case = gen_case(seed)
    res = evaluate(case)
    return seed, case, res


def _worker(args):
    (profile_name, base_seed, start, count, prop, deadline, opts) = args
    faulthandler.dump_traceback_later(900, exit=True)
    from dst import profiles
    prof = profiles.get(profile_name)
    agg = new_agg()
    known = set(tuple(k) for k in (opts or {}).get('known', []))
    t_start = time.time()
    for i in range(start, start + count):
        if time.time() > deadline:
            agg['cut_short'] += count - (i - start)
            break
        try:
            seed = derive(base_seed, profile_name, i)
            # through JSON: the case evaluated here is exactly what a replay
            # file would contain
            case = json.loads(json.dumps(prof.gen_case(seed)))
            # the code under test gets a private copy: whatever it does to the
            # dictionaries it is handed must not change the recorded case
            res = prof.evaluate(json.loads(json.dumps(case)), prop=prop)
        except HarnessError as e:
            agg['harness_errors'].append((i, 'HarnessError: %s' % e))
            continue
        except Exception:
            agg['harness_errors'].append((i, traceback.format_exc(limit=8)))
            continue
        fold(agg, prop, i, seed, case, res, known, bool((opts or {}).get('digests')))
    agg['worker_s'] = time.time() - t_start
    faulthandler.cancel_dump_traceback_later()
    return agg


def new_agg():
    return {'evaluations': 0, 'executions': 0, 'nontrivial': 0,
            'shapes': set(), 'probes': {}, 'faults': {},
            'violations': [], 'other': {}, 'known_hits': {},
            'sim_seconds': 0.0, 'events': 0, 'harness_errors': [],
            'samples': [], 'cut_short': 0, 'worker_s': 0.0,
            'digests': {}}


def fold(agg, prop, i, seed, case, res, known=(), keep_digests=False):
    agg['evaluations'] += 1
    agg['executions'] += res.get('executions', 1)
    agg['sim_seconds'] += res.get('sim_seconds', 0.0)
    agg['events'] += res.get('events', 0)
    for k, v in res.get('probes', {}).items():
        agg['probes'][k] = agg['probes'].get(k, 0) + v
    for k, v in res.get('faults', {}).items():
        agg['faults'][k] = agg['faults'].get(k, 0) + v
    if res.get('nontrivial'):
        agg['nontrivial'] += 1
        agg['shapes'].add(res.get('shape'))
        if len(agg['samples']) < 2:
            agg['samples'].append({'run': i, 'seed': seed, 'case': case})
    mine = False
    for v in res.get('violations', []):
        if v['prop'] == prop and not mine:
            mine = True
            if (v['prop'], v['rule'], v['disc']) in known:
                # a listed known finding: counted, not an alarm; the run's
                # checking ended at this event
                agg['known_hits'][v['rule']] = agg['known_hits'].get(v['rule'], 0) + 1
                continue
            if len(agg['violations']) < 40:
                agg['violations'].append({'run': i, 'seed': seed, 'case': case, 'v': v})
        elif v['prop'] != prop:
            key = '%s:%s' % (v['prop'], v['rule'])
            agg['other'][key] = agg['other'].get(key, 0) + 1
    for k, n in res.get('known_hits', {}).items():
        agg['known_hits'][k] = agg['known_hits'].get(k, 0) + n
    if 'digest' in res and (i < 64 or keep_digests):
        agg['digests'][i] = res['digest']


def merge(a, b):
    for k in ('evaluations', 'executions', 'nontrivial', 'events', 'cut_short'):
        a[k] += b[k]
    a['sim_seconds'] += b['sim_seconds']
    a['worker_s'] += b['worker_s']
    a['shapes'] |= b['shapes']
    for key in ('probes', 'faults', 'other', 'known_hits'):
        for k, v in b[key].items():
            a[key][k] = a[key].get(k, 0) + v
    a['violations'].extend(b['violations'])
    a['harness_errors'].extend(b['harness_errors'])
    if len(a['samples']) < 3:
        a['samples'].extend(b['samples'][:3 - len(a['samples'])])
    a['digests'].update(b['digests'])
    return a


def search(profile_name, prop, base_seed, runs, workers=None, max_secs=None,
           chunk=None, stop_on_violation=True, opts=None):
    """Run `runs` seeded cases of a profile; returns the aggregate."""
    workers = workers or min(16, os.cpu_count() or 1)
    max_secs = max_secs or 3600
    deadline = time.time() + max_secs
    chunk = chunk or max(10, min(250, runs // (workers * 4) or 1))
    tasks = []
    i = 0
    while i < runs:
        n = min(chunk, runs - i)
        tasks.append((profile_name, base_seed, i, n, prop, deadline, opts or {}))
        i += n
    agg = new_agg()
    if workers == 1:
        for t in tasks:
            merge(agg, _worker(t))
            if stop_on_violation and agg['violations']:
                break
        return agg
    ctx = multiprocessing.get_context('fork')
    hard_timeout = max_secs + 600
    with ProcessPoolExecutor(max_workers=workers, mp_context=ctx) as ex:
        futs = [ex.submit(_worker, t) for t in tasks]
        try:
            for f in as_completed(futs, timeout=hard_timeout):
                if f.cancelled():
                    continue
                merge(agg, f.result())
                if stop_on_violation and len(agg['violations']) >= 1:
                    for g in futs:
                        g.cancel()
                    # let running chunks finish; they are short
        except Exception as e:  # TimeoutError or a dead worker
            agg['harness_errors'].append((-1, 'pool: %r' % (e,)))
            for g in futs:
                g.cancel()
            for p in list(getattr(ex, '_processes', {}).values()):
                try:
                    p.kill()
                except Exception:
                    pass
    return agg
