"""Structure-agnostic minimisation of a Case (plain JSON).

A candidate is kept only if executing it yields a violation with the *same
signature* (property, rule, discriminator).  Ill-formed candidates simply do
not reproduce and are dropped.  Execution is a pure function of the Case, so
the minimised Case is its own replay."""

import copy


def _paths(node, prefix=()):
    """Yield (path, value) for every list and int in the JSON tree."""
    if isinstance(node, dict):
        for k in node:
            yield from _paths(node[k], prefix + (k,))
    elif isinstance(node, list):
        yield prefix, node
        for i, v in enumerate(node):
            yield from _paths(v, prefix + (i,))
    elif isinstance(node, bool):
        yield prefix, node
    elif isinstance(node, int):
        yield prefix, node
    elif isinstance(node, str):
        yield prefix, node


def _get(node, path):
    for k in path:
        node = node[k]
    return node


def _set(node, path, value):
    for k in path[:-1]:
        node = node[k]
    node[path[-1]] = value


PROTECTED_KEYS = ('unit', 'path', 'var', 'condition_path')


def _protected(path):
    return any(k in PROTECTED_KEYS for k in path if isinstance(k, str))


SIMPLE_STR = {}


def shrink(case, signature, run_fn, max_exec=400, log=None):
    """run_fn(case) -> signature of first violation or None."""
    best = copy.deepcopy(case)
    execs = [0]

    def attempt(cand):
        if execs[0] >= max_exec:
            return False
        execs[0] += 1
        try:
            sig = run_fn(cand)
        except Exception:
            return False
        return sig == signature

    improved = True
    rounds = 0
    while improved and execs[0] < max_exec and rounds < 8:
        improved = False
        rounds += 1
        # 1. delete list chunks, coarse to fine
        lists = [(p, v) for p, v in _paths(best) if isinstance(v, list)
                 and not _protected(p)]
        # prefer top-level structural lists first
        lists.sort(key=lambda pv: (len(pv[0]), str(pv[0])))
        for path, _ in lists:
            try:
                cur = _get(best, path)
            except (KeyError, IndexError, TypeError):
                continue
            if not isinstance(cur, list) or len(cur) == 0:
                continue
            n = len(cur)
            chunk = n
            while chunk >= 1 and execs[0] < max_exec:
                i = 0
                while i < len(cur) and execs[0] < max_exec:
                    if len(cur) - min(chunk, len(cur) - i) < _min_len(path):
                        i += chunk
                        continue
                    cand = copy.deepcopy(best)
                    c = _get(cand, path)
                    del c[i:i + chunk]
                    if attempt(cand):
                        best = cand
                        cur = _get(best, path)
                        improved = True
                    else:
                        i += chunk
                chunk //= 2
        # 2. simplify scalars
        for path, v in list(_paths(best)):
            if execs[0] >= max_exec:
                break
            if _protected(path):
                continue
            try:
                cur = _get(best, path)
            except (KeyError, IndexError, TypeError):
                continue
            cands = []
            if isinstance(cur, bool):
                if cur:
                    cands = [False]
            elif isinstance(cur, int):
                if path and path[-1] == 'seed':
                    continue
                for c in (0, 1, cur // 2, cur - 1):
                    if 0 <= c < cur and c not in cands:
                        cands.append(c)
            elif isinstance(cur, str):
                key = path[-1] if path else None
                if key == 'mode':
                    simple = ['const'] if 'ts' in path else (['none'] if 'cond' in path else [])
                else:
                    simple = SIMPLE_STR.get(key, [])
                for c in simple:
                    if c != cur:
                        cands.append(c)
            for c in cands:
                cand = copy.deepcopy(best)
                _set(cand, path, c)
                if attempt(cand):
                    best = cand
                    improved = True
                    break
    if log is not None:
        log['shrink_executions'] = execs[0]
    return best


def _min_len(path):
    # lists that must keep at least one element
    last = path[-1] if path else None
    if last in ('vals', 'ops', 'procs'):
        return 1
    if len(path) >= 2 and path[-2] == 'writes':
        return 2
    if isinstance(last, int) and len(path) >= 2 and path[-2] in ('ops', 'writes'):
        return 99  # never cut inside an op tuple / write pair
    return 0
