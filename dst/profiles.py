"""Registry of workload profiles and of the properties they serve."""

import importlib

_MODULES = {
    'kernel': 'dst.kernel',
    'steps': 'dst.steps',
    'wiring': 'dst.wiring',
    'struct': 'dst.struct',
    'parallel': 'dst.parallel',
    'timeline': 'dst.timeline',
    'composite': 'dst.composite',
}

# property -> list of (profile, share of the run budget)
PROPERTY_PROFILES = {
    'C01': [('kernel', 1.0)],
    'C02': [('kernel', 1.0)],
    'C03': [('kernel', 1.0)],
    'C04': [('kernel', 0.7), ('steps', 0.3)],
    'C05': [('steps', 1.0)],
    'C06': [('wiring', 1.0)],
    'C07': [('wiring', 0.6), ('struct', 0.4)],
    'C08': [('wiring', 1.0)],
    'C15': [('wiring', 0.8), ('struct', 0.2)],
    'C09': [('struct', 1.0)],
    'C10': [('struct', 1.0)],
    'C11': [('struct', 1.0)],
    'C13': [('parallel', 1.0)],
    'C19': [('timeline', 1.0)],
    'C16': [('composite', 1.0)],
    'C12': [('kernel', 0.45), ('steps', 0.15), ('struct', 0.15), ('wiring', 0.25)],
}


def get(name):
    return importlib.import_module(_MODULES[name])


def names():
    return list(_MODULES)
