"""Parallel profile (C13): every kernel / steps / structural case can be run
with a seeded subset of its parties marked `_parallel`, under the simulated
worker transport (SimMP) with a seeded scheduler, and must be
indistinguishable from the serial run; whenever and however the engine is shut
down, every worker is told to stop and is reaped."""

import copy
import json

from dst.rng import Rng, derive
from dst import harness, kernel, steps as steps_mod, struct, wiring
from dst.kernel import V, tval, leaves
from dst.wmodel import values_equal

PROFILE = 'parallel'


def _depoll(spec):
    """Answers indexed by interval number: a different number of polls (which
    the property does not forbid) cannot desynchronise the scripts."""
    ts = spec.get('ts')
    if ts and ts.get('mode') == 'poll':
        ts['mode'] = 'interval'
    c = spec.get('cond')
    if c and c.get('mode') == 'poll':
        c['mode'] = 'interval'
        c['vals'] = [0 if v else 1 for v in c['vals']]


def gen_case(seed):
    r = Rng(derive(seed, 'parallel'))
    kind = r.pick(['kernel', 'kernel', 'kernel', 'steps', 'struct', 'struct', 'struct', 'wiring', 'wiring'])
    if kind == 'kernel':
        base = kernel.gen_case(derive(seed, 'base'))
        k_ = 0
        while not base['procs']:
            k_ += 1
            base = kernel.gen_case(derive(seed, 'base', k_))
        base['opts']['emit_step'] = 1
        for sp in base['procs']:
            _depoll(sp)
        names = [sp['name'] for sp in base['procs']] + [sp['name'] for sp in base.get('steps', [])]
    elif kind == 'steps':
        base = steps_mod.gen_case(derive(seed, 'base'))
        base['opts']['emit_step'] = 1
        for sp in base['procs']:
            _depoll(sp)
        # steps that create parties at run time stay serial (their products do too)
        names = [sp['name'] for sp in base['procs']] + [
            sp['name'] for sp in base.get('steps', []) if not sp.get('gen')]
    elif kind == 'wiring':
        # ports of every shape (globs, '..', shared leaves, units, custom updaters,
        # views handed back as updates) with every view and update crossing the pipe
        base = wiring.gen_case(derive(seed, 'base'))
        base['rebuild'] = None
        for sp in base['procs']:
            _depoll(sp)
        names = [sp['name'] for sp in base['procs']]
    else:
        base = struct.gen_case(derive(seed, 'base'))
        for t in base['templates'].values():
            for sp in t['procs']:
                _depoll(sp)
        for a in base['actors']:
            _depoll(a)
            # copying the mother's processes deep-copies process objects, which a live
            # worker handle cannot support: daughters are always given explicitly
            for op in a['ops']:
                if op[0] == 'div':
                    op[2] = 'explicit'
        for v in base.get('viewers', []):
            _depoll(v)
        names = ['cells']
    k = r.rint(1, max(1, len(names)))
    par = r.sample(names, k) if kind != 'struct' else ['cells']
    shutdown = r.pick(['end', 'end', 'end2', 'drop', 'none-then-drop'])
    # mid-run shutdown: the last op does not force completion, so updates may be in flight
    mid = r.chance(40)
    if mid and base['ops']:
        last = base['ops'][-1]
        base['ops'][-1] = ['run_for', last[1], False]
    return {'profile': PROFILE, 'seed': seed, 'kind': kind, 'base': base,
            'par': {'names': par, 'sched_seed': derive(seed, 'sched') & 0xFFFFFFFF,
                    'shutdown': shutdown, 'mid': mid}}


def tail_ops(case):
    sd = case['par']['shutdown']
    if sd == 'end':
        return [['end']]
    if sd == 'end2':
        return [['end'], ['end']]
    return [['drop']]


def _module(case):
    return {'kernel': kernel, 'steps': kernel, 'struct': struct, 'wiring': wiring}[case['kind']]


def validate(case):
    mod = {'kernel': kernel, 'steps': steps_mod, 'struct': struct, 'wiring': wiring}[case['kind']]
    mod.validate(case['base'])
    if not case['par']['names']:
        raise harness.HarnessError('nothing parallel')
    if case['kind'] == 'struct':
        for a in case['base']['actors']:
            for op in a['ops']:
                if op[0] == 'div' and op[2] != 'explicit':
                    raise harness.HarnessError('copy-mode division with parallel cells')


def rows_of(run):
    return [(e['row'].get('time'), {k: v for k, v in e['row'].items() if k != 'time'})
            for e in run.log if e['k'] == 'EMIT' and e.get('table') == 'history']


def evaluate(case, prop=None):
    validate(case)
    base = case['base']
    mod = _module(case)
    tail = tail_ops(case)
    run_s = mod.execute(base)
    run_p = mod.execute(base, parallel=tuple(case['par']['names']),
                        sim_seed=case['par']['sched_seed'], tail_ops=tail)
    vs = []
    stats = {'probes': {}}
    probes = stats['probes']
    vs += check_transparency(case, run_s, run_p, probes)
    vs += check_transport(case, run_p, probes)
    if case['kind'] == 'struct' and any(v['rule'] == 'C13.shutdown' for v in vs):
        # A `_move` onto a key that already exists in the target store replaces the
        # compartment there in a way no statement describes (C09/C10 stop judging such a
        # history at that point, see struct.Inconclusive).  The processes it displaces
        # are neither deleted nor divided away and Engine.end() cannot know them: their
        # workers stop when the displaced objects are garbage collected.  Not judged.
        st2 = {}
        struct.check(base, run_s, st2)
        if st2.get('probes', {}).get('left-the-domain'):
            vs = [v for v in vs if v['rule'] != 'C13.shutdown']
            probes['left-the-domain'] = 1
    mp = run_p.extra.get('mp') or {}
    probes['sync-points'] = mp.get('sync_points', 0)
    probes['task-switches'] = mp.get('switches', 0)
    probes['workers'] = len(mp.get('procs') or [])
    final_T = run_p.log[-1]['T'] if run_p.log else 0
    import hashlib
    h = hashlib.blake2b(digest_size=8)
    h.update(kernel.shape_of(run_p.log).to_bytes(8, 'big'))
    for e in run_p.log:
        if e['k'] == 'MP' and e.get('what') == 'switch':
            h.update(e['to'].encode())
    return {
        'violations': vs, 'probes': probes,
        'nontrivial': bool(mp.get('procs')),
        'shape': int.from_bytes(h.digest(), 'big'), 'events': len(run_p.log),
        'sim_seconds': final_T,
        'faults': {'F5-worker-sched': mp.get('switches', 0),
                   'F7-stop-point-' + case['par']['shutdown'] + ('-mid' if case['par']['mid'] else ''): 1,
                   'F1-inflight-kill': probes.get('parallel-party-removed-in-flight', 0)},
        'executions': 2, 'digest': run_p.digest,
    }


def check_transparency(case, run_s, run_p, probes):
    """Serial and parallel runs are observably the same."""
    if run_s.budget_hit or run_p.budget_hit:
        return [V('C03', 'C03.no-termination', 'parallel', 'budget exceeded')]
    if run_p.deadlock_hit:
        return [V('C13', 'C13.deadlock', _exc_disc(run_p),
                  'the engine blocks on a worker that can never answer / never exits: %s' % (
                      run_p.exc and run_p.exc[2][-700:]))]
    if run_s.exc is not None:
        # the serial run itself fails: not a statement about parallel execution
        return []
    if run_p.exc is not None:
        return [V('C13', 'C13.parallel-raises', _exc_disc(run_p),
                  'the serial run completes, the run with %r in parallel raises at op %d: %s' % (
                      case['par']['names'], run_p.exc[0], run_p.exc[2][-900:]))]
    a, b = rows_of(run_s), rows_of(run_p)
    if [t for t, _ in a] != [t for t, _ in b]:
        return [V('C13', 'C13.trajectory', 'times',
                  'row times differ: serial %r..., parallel %r...' % ([t for t, _ in a][:8], [t for t, _ in b][:8]))]
    for (ta, ra), (tb, rb) in zip(a, b):
        if not values_equal(ra, rb):
            la, lb = leaves(ra), leaves(rb)
            diff = sorted(k for k in set(la) | set(lb) if not values_equal(la.get(k), lb.get(k)))
            return [V('C13', 'C13.trajectory', 'row',
                      'row at %r differs: %r' % (ta, [(k, la.get(k), lb.get(k)) for k in diff[:3]]))]
    fs, fp = run_s.extra.get('final_state'), run_p.extra.get('final_state')
    if fs is not None and fp is not None and not values_equal(fs, fp):
        return [V('C13', 'C13.final-state', 'plain', 'final states differ: serial %r, parallel %r' % (fs, fp))]
    ps, pp = run_s.extra.get('published'), run_p.extra.get('published')
    if ps is not None and pp is not None:
        for (i, a_, _), (j, b_, _) in zip(ps, pp):
            if a_ != b_:
                return [V('C13', 'C13.published', 'plain',
                          'published composite after op %d differs: serial %r, parallel %r' % (i, a_, b_))]
    # what every party was handed: a party that copies its arguments into an
    # emitted variable would make any difference here a difference of rows
    ia, ib = _inputs_of(run_s), _inputs_of(run_p)
    for u in sorted(set(ia) | set(ib)):
        xa, xb = ia.get(u, []), ib.get(u, [])
        for n, (x, y) in enumerate(zip(xa, xb)):
            if x[0] != y[0] or not values_equal(x[1], y[1]):
                return [V('C13', 'C13.trajectory', 'inputs',
                          'call %d of %s got (timestep, view) %r serially and %r in parallel' % (n, u, x, y))]
        if len(xa) != len(xb):
            return [V('C13', 'C13.trajectory', 'inputs',
                      '%s computed %d updates serially and %d in parallel' % (u, len(xa), len(xb)))]
    probes['transparency-checked'] = 1
    probes['party-inputs-compared'] = sum(len(v) for v in ia.values())
    return []


def _inputs_of(run):
    d = {}
    for e in run.log:
        if e['k'] in ('NU', 'STEPNU'):
            d.setdefault(e['uid'], []).append((e.get('ts'), e.get('view')))
    return d


def _exc_disc(run):
    if run.exc is None:
        return 'none'
    msg = run.exc[1]
    if 'still pending' in run.exc[2]:
        if 'build_topology_views' in run.exc[2]:
            return 'command-pending:views-rebuilt-while-in-flight'
        if '_delete_path' in run.exc[2] or 'recursive_end_process' in run.exc[2]:
            return 'command-pending:removed-while-in-flight'
        return 'command-pending'
    if 'SimDeadlock' in msg:
        return 'deadlock'
    return msg[:50]


def check_transport(case, run_p, probes):
    """Protocol and shutdown discipline, from the transport log."""
    out = []
    for e in run_p.log:
        if e['k'] != 'MP':
            continue
        if e.get('what') == 'send' and e.get('outstanding'):
            return [V('C13', 'C13.protocol', 'send-while-pending',
                      'command %r sent on %s while %d earlier result(s) are uncollected' % (
                          e.get('msg'), e['conn'], e['outstanding']), e['seq'])]
        if e.get('what') == 'send' and e.get('after_end'):
            return [V('C13', 'C13.protocol', 'send-after-end',
                      'command %r sent on %s after the worker was told to stop' % (e.get('msg'), e['conn']), e['seq'])]
    if run_p.exc is not None or run_p.deadlock_hit:
        return out       # judged by check_transparency
    mp = run_p.extra.get('mp') or {}
    ended = {}
    for e in run_p.log:
        if e['k'] == 'MP' and e.get('what') == 'recv' and e.get('msg') == 'end':
            ended[e['conn']] = ended.get(e['conn'], 0) + 1
    for n, c in ended.items():
        if c > 1:
            return [V('C13', 'C13.shutdown', 'end-sent-twice', 'worker on %s was told to stop %d times' % (n, c))]
    for i, p in enumerate(mp.get('procs') or []):
        if not p['started']:
            continue
        conn = 'pipe%d/child' % i
        if p['exc']:
            return [V('C13', 'C13.worker-crashed', 'plain', 'worker %s died: %s' % (p['name'], p['exc']))]
        if not p['finished'] or conn not in ended:
            return [V('C13', 'C13.shutdown', 'worker-left-running',
                      'worker %s was never told to stop (shutdown: %s%s)' % (
                          p['name'], case['par']['shutdown'], ', mid-run' if case['par']['mid'] else ''))]
        if not p['joined'] or not p['closed']:
            return [V('C13', 'C13.shutdown', 'not-reaped',
                      'worker %s exited but was not joined/closed' % p['name'])]
    if mp.get('leftover'):
        return [V('C13', 'C13.shutdown', 'worker-left-running', 'tasks still parked at teardown: %r' % mp['leftover'])]
    if run_p.unraisable:
        return [V('C13', 'C13.shutdown', 'exception-in-del',
                  'exception swallowed during garbage collection: %s' % run_p.unraisable[0][:300])]
    probes['shutdown-' + case['par']['shutdown']] = 1
    if case['par']['mid']:
        probes['shutdown-mid-run'] = 1
    probes['clean-shutdown'] = 1
    return out


# ---------------------------------------------------------------------------
# real-transport spot check (not part of the search)
# ---------------------------------------------------------------------------

def real_spot(n=3, base_seed=1, max_workers=2, timeout=240):
    """Runs a few small kernel and wiring cases on the real forkserver transport and
    compares them with the serial run and with the SimMP run of the same case:
    a confirmation that the simulated transport and the real one give the same
    trajectory, and that the real workers are reaped.  Returns a list of
    problems (empty = all equal)."""
    import json
    import multiprocessing
    import signal
    problems = []
    done = 0
    i = 0

    def on_alarm(signum, frame):
        raise TimeoutError('real forkserver run did not finish within %d s' % timeout)
    old = signal.signal(signal.SIGALRM, on_alarm)
    try:
        while done < n and i < 400:
            case = json.loads(json.dumps(gen_case(derive(base_seed, 'parallel', i))))
            i += 1
            if case['kind'] not in ('kernel', 'wiring') or len(case['par']['names']) > max_workers:
                continue
            if sum(op[1] for op in case['base']['ops']) > 60:
                continue
            validate(case)
            base = case['base']
            tail = tail_ops(case)
            mod = _module(case)
            run_s = mod.execute(json.loads(json.dumps(base)))
            if run_s.exc is not None:
                continue
            run_p = mod.execute(json.loads(json.dumps(base)), parallel=tuple(case['par']['names']),
                                sim_seed=case['par']['sched_seed'], tail_ops=tail)
            signal.alarm(timeout)
            try:
                run_r = mod.execute(json.loads(json.dumps(base)), parallel=tuple(case['par']['names']),
                                    sim_seed=None, tail_ops=tail)
            finally:
                signal.alarm(0)
            done += 1
            a, b, c = rows_of(run_s), rows_of(run_p), rows_of(run_r)
            if run_r.exc is not None:
                problems.append('case %d: the real-transport run raised %s' % (i - 1, run_r.exc[1]))
            elif not (values_equal([list(x) for x in a], [list(x) for x in c])
                      and values_equal([list(x) for x in b], [list(x) for x in c])):
                problems.append('case %d: trajectories differ (serial %d rows, SimMP %d rows, forkserver %d rows)' % (
                    i - 1, len(a), len(b), len(c)))
            import gc
            gc.collect()
            left = multiprocessing.active_children()
            if left:
                problems.append('case %d: %d worker process(es) still alive after shutdown %r' % (
                    i - 1, len(left), case['par']['shutdown']))
                for p in left:
                    p.terminate()
    finally:
        signal.signal(signal.SIGALRM, old)
    return done, problems
