"""Kernel profile: multi-timestep scheduling (C01, C02, C03; carries C08/C12
clauses).  Case generator, executor and history oracles."""

from fractions import Fraction

from dst.rng import Rng, derive
from dst import harness
from dst.harness import tval
from dst.rec import REC

PROFILE = 'kernel'
DYADIC = [1, 8]
UNDECLARED = 'zz_undeclared'


# ---------------------------------------------------------------------------
# generation
# ---------------------------------------------------------------------------

def gen_case(seed):
    r = Rng(seed)
    swarm = {
        'precision': r.chance(22),
        'quiet': r.chance(60),
        'jitter': r.chance(55),
        'interrupt': r.chance(75),
        'steps': r.chance(40),
        'nested': r.chance(25),
        'long': r.chance(15),
        'flags': r.chance(30),
        't0': r.chance(20),
        'noforce_end': r.chance(20),
        'emitflags': r.chance(25),
        'emit_step': r.chance(15),
        'store_schema': r.chance(12),
    }
    if swarm['precision']:
        p = r.pick([1, 1, 2, 3])
        unit = [1, 10 ** p]
        # keep runs short in grid units so that spans stay small
        tsmax = r.pick([9, 15, 30])
    else:
        p = None
        unit = list(DYADIC)
        tsmax = r.pick([8, 16, 24])
    nvars = r.rint(1, 3)
    avars = ['a%d' % i for i in range(nvars)]
    nprocs = r.pick([1, 1, 2, 2, 2, 3, 3, 4, 5, 6])
    fvars = ['f0'] if swarm['flags'] else []
    procs = []
    for i in range(nprocs):
        name = 'p%d' % i
        spec = {'name': name, 'vars': avars, 'fvars': fvars}
        # timestep
        m = r.below(100)
        if not swarm['jitter'] or m < 45:
            spec['ts'] = {'mode': 'const', 'vals': [r.rint(1, tsmax)]}
        elif m < 70:
            spec['ts'] = {'mode': 'poll',
                          'vals': [r.rint(1, tsmax) for _ in range(r.rint(2, 8))]}
        elif m < 85:
            spec['ts'] = {'mode': 'interval',
                          'vals': [r.rint(1, tsmax) for _ in range(r.rint(2, 8))]}
        else:
            spec['ts'] = {'mode': 'var', 'var': ['acc', r.pick(avars)],
                          'vals': [r.rint(1, tsmax) for _ in range(r.rint(2, 5))]}
        if swarm['long'] and r.chance(30):
            spec['ts'] = {'mode': 'const', 'vals': [r.rint(200, 4000)]}
        spec['ts']['unit'] = unit
        # condition
        c = r.below(100)
        if not swarm['quiet'] or c < 45:
            spec['cond'] = {'mode': 'none'}
        elif c < 70:
            ptrue = r.pick([0, 20, 50, 80])
            spec['cond'] = {'mode': 'poll', 'vals': [
                1 if r.chance(ptrue) else 0 for _ in range(r.rint(1, 10))]}
        elif c < 85:
            spec['cond'] = {'mode': 'interval', 'vals': [
                r.pick([0, 0, 1, 2, 3]) for _ in range(r.rint(1, 6))]}
        elif c < 92 or not fvars:
            spec['cond'] = {'mode': 'var', 'var': ['acc', r.pick(avars)],
                            'vals': [r.pick([0, 1, 1]) for _ in range(r.rint(2, 4))]}
        else:
            spec['cond'] = {'mode': 'param'}
            spec['condition_path'] = ['flags', 'f0']
        # writes
        ws = r.sample(avars, r.rint(1, min(2, nvars)))
        spec['writes'] = [
            [v, [r.rint(1, (1 << 30) - 1) for _ in range(r.rint(1, 5))]]
            for v in ws]
        if fvars and r.chance(50):
            spec['flags'] = [['f0', [r.below(2) for _ in range(r.rint(1, 6))]]]
        path = [name]
        if swarm['nested'] and r.chance(50):
            path = ['c%d' % r.below(2)] + path
            if r.chance(30):
                path = ['d0'] + path
        spec['path'] = path
        if r.chance(25):
            # a variable only this process declares, whose default is set by a
            # `_schema` override (must reach exactly this process and port)
            ov = 'o%d' % i
            spec['vars'] = list(avars) + [ov]
            spec['override'] = {'acc': {ov: {'_default': r.rint(300, 400)}}}
            if r.chance(50):
                spec['writes'].append([ov, [r.rint(1, 99)]])
        procs.append(spec)
    steps = []
    if r.chance(4):
        # no processes at all: only steps (run_for must still terminate and land on its end)
        procs = []
        swarm['steps'] = True
    if swarm['steps']:
        for i in range(r.rint(1, 2)):
            steps.append({'name': 's%d' % i, 'vars': avars, 'path': ['s%d' % i],
                          'where': r.pick(['steps', 'steps', 'processes']),
                          'flow': r.pick([None, []])})
    # driver ops
    ops = []
    nops = r.rint(1, 6) if swarm['interrupt'] else r.rint(1, 2)
    budget_units = r.pick([16, 40, 80, 160, 256])
    for i in range(nops):
        if swarm['interrupt'] and r.chance(35):
            units = r.rint(1, max(1, tsmax // 2))   # shorter than most timesteps
        else:
            units = r.rint(1, max(1, budget_units // nops))
        kind = r.below(100)
        if kind < 45:
            ops.append(['run_for', units, False])
        elif kind < 70:
            ops.append(['run_for', units, True])
        else:
            ops.append(['update', units])
    if not swarm['noforce_end'] and ops[-1][0] == 'run_for' and not ops[-1][2]:
        ops[-1] = r.pick([['update', ops[-1][1]], ['run_for', ops[-1][1], True]])
    t0u = r.rint(1, 40) if swarm['t0'] else 0
    init = {}
    if r.chance(40):
        init = {'acc': {v: r.rint(0, 1000) for v in avars if r.chance(60)}}
    if init.get('acc') and Rng(derive(seed, 'undeclared')).chance(25):
        # a key no process declares, listed first: the engine ignores it (own
        # stream: the cases of earlier seeds keep their shape)
        init = {'acc': dict({UNDECLARED: 5}, **init['acc'])}
    noemit = []
    if swarm['emitflags']:
        noemit = [v for v in avars if r.chance(40)]
    for spec in procs + steps:
        spec['noemit'] = noemit
    store_schema = None
    if swarm['store_schema']:
        m = r.below(4)
        if m == 3:
            # a branch-level flag and a differing flag for one variable inside the same branch
            b_ = bool(r.below(2))
            store_schema = {'acc': {'_emit': b_, r.pick(avars): {'_emit': not b_}}}
        elif m == 0:
            store_schema = {'acc': {'_emit': bool(r.below(2))}}          # branch-level flag
        elif m == 1:
            store_schema = {'acc': {r.pick(avars): {'_emit': bool(r.below(2))}}}
        else:
            store_schema = {'acc': {'_emit': False, }, 'verif_probe': {'_emit': True}}
            store_schema = {'acc': {'_emit': False}}
    emit_step = 1
    if swarm['emit_step'] and (p is None or p == 1):
        emit_step = r.pick([2, 2, 3, 5])
    case = {
        'profile': PROFILE, 'seed': seed,
        'opts': {'precision': p, 'unit': unit, 'emit_step': emit_step,
                 't0': t0u},
        'store_schema': store_schema,
        'procs': procs, 'steps': steps, 'init': init, 'ops': ops,
        'swarm': sorted(k for k, v in swarm.items() if v),
    }
    return case


# ---------------------------------------------------------------------------
# execution
# ---------------------------------------------------------------------------

def _topology_for(spec, depth):
    up = ('..',) * depth
    topo = {'acc': up + ('acc',), 'probe': up + ('verif_probe',)}
    if spec.get('fvars') or spec.get('condition_path'):
        topo['flags'] = up + ('flags',)
    return topo


def permute_dict(d, rng):
    """Same mapping, seeded different insertion order (recursively)."""
    if not isinstance(d, dict):
        return d
    keys = rng.shuffle(list(d.keys()))
    return {k: permute_dict(d[k], rng) for k in keys}


def build(case, parallel=(), perm=None):
    from dst.parties import KProc, KStep
    from dst.rng import derive
    processes, steps, topology, flow = {}, {}, {}, {}
    procs = list(case['procs'])
    stepl = list(case.get('steps', []))
    prng = None
    if perm is not None:
        prng = Rng(derive(perm, 'perm'))
        procs = prng.shuffle(procs)
        # flow-less derivers run in declaration order by contract: keep the
        # relative order of the steps, permute everything else
    for spec in procs:
        params = {'spec': spec, 'name': spec['name']}
        if perm is not None:
            params['perm'] = derive(perm, spec['name'])
        if spec.get('condition_path'):
            params['_condition'] = tuple(spec['condition_path'])
        if spec.get('override'):
            import copy as _copy
            params['_schema'] = _copy.deepcopy(spec['override'])
        if spec['name'] in parallel or spec.get('parallel'):
            params['_parallel'] = True
        proc = KProc(params)
        path = spec['path']
        harness.assoc(processes, path, proc)
        harness.assoc(topology, path, _topology_for(spec, len(path) - 1))
    for spec in stepl:
        params = {'spec': spec, 'name': spec['name']}
        if perm is not None:
            params['perm'] = derive(perm, spec['name'])
        if spec['name'] in parallel:
            params['_parallel'] = True
        path = spec['path']
        up = ('..',) * (len(path) - 1)
        if spec.get('cls') == 'FStep':
            from dst.parties import FStep
            st = FStep(params)
            topo = {'tok': up + ('tok',), 'acc': up + ('acc',),
                    'probe': up + ('verif_probe',)}
            if spec.get('kill') or spec.get('gen') or spec.get('watch'):
                topo['world'] = up + ('world',)
        else:
            st = KStep(params)
            topo = _topology_for(spec, len(path) - 1)
            topo.pop('flags', None)
            topo['out'] = up + ('out',)
        harness.assoc(processes if spec.get('where') == 'processes' else steps,
                      path, st)
        harness.assoc(topology, path, topo)
        if spec.get('flow') is not None:
            harness.assoc(flow, path, [tuple(d) for d in spec['flow']])
    if prng is not None:
        topology = permute_dict(topology, prng)
        flow = permute_dict(flow, prng)
        # processes dict: permute, but keep flow-less derivers in their
        # relative declaration order (that order is part of the contract)
        processes = _permute_keep_steps(processes, prng)
    return processes, steps, topology, flow


def _permute_keep_steps(d, rng):
    from vivarium.core.process import Process
    if not isinstance(d, dict):
        return d
    keys = list(d.keys())
    step_keys = [k for k in keys if isinstance(d[k], Process) and d[k].is_step()]
    other = rng.shuffle([k for k in keys if k not in step_keys])
    # interleave: steps keep relative order, positions chosen by the rng
    out = list(other)
    pos = sorted(rng.below(len(out) + 1) for _ in step_keys)
    for off, (p_, k) in enumerate(zip(pos, step_keys)):
        out.insert(p_ + off, k)
    return {k: _permute_keep_steps(d[k], rng) for k in out}


def _deriver_order(d, flow, path=()):
    """Names of the flow-less steps of a processes/steps dict in depth-first
    declaration order."""
    from vivarium.core.process import Process
    out = []
    for k, v in d.items():
        if isinstance(v, dict):
            out += _deriver_order(v, flow, path + (k,))
        elif isinstance(v, Process) and v.is_step():
            f = flow
            for seg in path + (k,):
                f = f.get(seg) if isinstance(f, dict) else None
                if f is None:
                    break
            if f is None:
                out.append(k)
    return out


def budget_for(case, units):
    n = len(case['procs']) + 3 * len(case.get('steps', [])) + 2
    return 4000 * (units + 20) * n


def execute(case, parallel=(), perm=None, emit_step=None, sim_seed=None, tail_ops=()):
    import copy
    opts = case['opts']
    unit = opts['unit']
    t0 = tval(opts.get('t0', 0), unit)
    run = harness.Run()
    harness.begin_run(t0, seed=case.get('seed', 0), simmp_seed=sim_seed)
    try:
        processes, steps, topology, flow = build(case, parallel, perm)
        run.extra['deriver_order_processes'] = _deriver_order(processes, flow)
        run.extra['deriver_order_steps'] = _deriver_order(steps, flow)
        init = copy.deepcopy(case.get('init') or {})
        kw = {}
        if perm is not None:
            init = permute_dict(init, Rng(perm))
        if case.get('store_schema'):
            kw['store_schema'] = copy.deepcopy(case['store_schema'])
        eng = harness.make_engine(
            run, budget_for(case, 1),
            processes=processes, steps=steps, topology=topology, flow=flow,
            initial_state=init,
            global_time_precision=opts.get('precision'),
            emit_step=(emit_step if emit_step is not None
                       else opts.get('emit_step', 1)),
            initial_global_time=t0, **kw)
        if eng is not None:
            harness.drive(run, eng, case['ops'], unit,
                          lambda op: budget_for(case, op[1] if len(op) > 1 else 1),
                          prec=opts.get('precision'))
            if run.exc is None and tail_ops:
                run.extra['final_state'] = REC.snapshot()
                harness.drive(run, eng, [list(o) for o in tail_ops], unit, lambda op: 2000000,
                              first_index=len(case['ops']))
                if run.extra.get('drop'):
                    eng = None
                    processes = steps = None
                    harness.drop_engine(run)
            elif run.exc is None:
                run.extra['final_state'] = REC.snapshot()
            if run.exc is None and eng is not None:
                try:
                    run.extra['front'] = {
                        path: (f['time'], bool(f['update']))
                        for path, f in eng.front.items()}
                except Exception:
                    run.extra['front'] = None
                run.extra['ram'] = run.emitter.get_data() if run.emitter else None
    finally:
        harness.end_run()
    return harness.finish(run)


# ---------------------------------------------------------------------------
# oracles
# ---------------------------------------------------------------------------

def V(prop, rule, disc, detail, seq=None):
    return {'prop': prop, 'rule': rule, 'disc': disc, 'detail': detail,
            'seq': seq}


def _close(a, b, tol):
    if tol == 0:
        return a == b
    return abs(a - b) <= tol * max(1.0, abs(a), abs(b))


def check(case, run, stats=None):
    """Evaluate the kernel oracles over the recorded history.  Returns a list
    of violations (each tagged with the property it belongs to), first
    violation first.  `stats` collects probes."""
    stats = stats if stats is not None else {}
    probes = stats.setdefault('probes', {})

    def probe(name, n=1):
        probes[name] = probes.get(name, 0) + n

    out = []
    opts = case['opts']
    prec = opts.get('precision')
    unit = opts['unit']
    t0 = tval(opts.get('t0', 0), unit)
    log = run.log
    tol = 0

    # ---- termination / exceptions ------------------------------------
    if run.budget_hit:
        i = run.exc[0] if run.exc else None
        out.append(V('C03', 'C03.no-termination', _quiet_disc(log),
                     'op %s exceeded the backward-jump budget' % i))
        return out
    specs = {s['name']: s for s in case['procs']}
    writes = {}
    for s in case['procs']:
        writes[s['name']] = {v: a for v, a in s.get('writes', [])}

    # ---- walk the log ---------------------------------------------------
    st = {}       # party uid -> dict
    ops = {}      # op index -> OPSTART event
    acc = dict((case.get('init') or {}).get('acc') or {})
    acc.pop(UNDECLARED, None)
    all_vars = set()
    for s in case['procs']:
        all_vars.update(s.get('vars', []))
    for v in all_vars:
        acc.setdefault(v, 0)
    for s_ in case['procs']:
        for v, sch in ((s_.get('override') or {}).get('acc') or {}).items():
            if v not in ((case.get('init') or {}).get('acc') or {}):
                acc[v] = sch['_default']
    lastT = t0
    last_emit_T = None
    final_T = t0
    cur_op = None
    applied_uids = set()
    op_done = {}
    batch_times = []   # times at which an APPLY of a process happened

    def party(uid):
        d = st.get(uid)
        if d is None:
            d = st[uid] = {
                'last_end': t0, 'fr_end': Fraction(opts.get('t0', 0) * unit[0], unit[1]),
                'quiet': False, 'poll': None, 'cond': None, 'pending': None,
                'k': 0, 'sum_ts': 0, 'ever_quiet': False, 'created': t0}
        return d

    for ev in log:
        k = ev['k']
        T = ev['T']
        seq = ev['seq']
        # C03 monotone clock
        if T < lastT:
            out.append(V('C03', 'C03.clock-backwards',
                         'after-quiet' if any(p['ever_quiet'] for p in st.values()) else 'plain',
                         'time went %r -> %r at event %d (%s)' % (lastT, T, seq, k), seq))
            return out
        lastT = T
        if cur_op is not None and 'end' in cur_op and T > cur_op['end']:
            out.append(V('C03', 'C03.clock-past-end', 'plain',
                         'time %r beyond end %r of op %d' % (T, cur_op['end'], cur_op['op']), seq))
            return out

        if k == 'OPSTART':
            cur_op = ev
            ops[ev['op']] = ev
        elif k == 'OPEND':
            if ev.get('exc') is None and cur_op is not None and 'end' in cur_op:
                if T != cur_op['end']:
                    out.append(V('C03', 'C03.not-on-end', 'plain',
                                 'op %d returned at %r, expected %r' % (ev['op'], T, cur_op['end']), seq))
                    return out
                op_done[ev['op']] = True
            final_T = T
        elif k == 'POLL':
            uid = ev['uid']
            if uid.split('#')[0] not in specs:
                continue
            d = party(uid)
            d['poll'] = ev
            d['poll_used'] = False
            d['cond'] = None
            if ev['ans'] <= 0:
                raise harness.HarnessError('non-positive timestep generated')
        elif k == 'COND':
            uid = ev['uid']
            if uid.split('#')[0] not in specs:
                continue
            d = party(uid)
            d['cond'] = ev
            if not ev['ans']:
                d['quiet'] = True
                d['ever_quiet'] = True
                probe('quiet-poll')
        elif k == 'NU':
            uid = ev['uid']
            d = party(uid)
            if d['pending'] is not None:
                out.append(V('C02', 'C02.overlap', 'nu-while-pending',
                             '%s invoked for interval %d while interval %d is unapplied' % (
                                 uid, ev['n'], d['pending']['n']), seq))
                return out
            c = d['cond']
            if c is not None and not c['ans']:
                out.append(V('C01', 'C01.quiet-contributes', 'nu-after-false',
                             '%s invoked although its condition was false' % uid, seq))
                return out
            p = d['poll']
            if p is None:
                out.append(V('C02', 'C02.no-poll', 'plain',
                             '%s invoked without a timestep request' % uid, seq))
                return out
            if d.get('poll_used'):
                # the timestep of an interval is the one requested for it: the
                # answer to an earlier request was spent on the interval before
                out.append(V('C02', 'C02.no-poll', 'stale-request',
                             '%s invoked for interval %d with the timestep it requested for the '
                             'interval before (no new request)' % (uid, ev['n']), seq))
                return out
            d['poll_used'] = True
            lo = d['last_end']
            hi = T if d['quiet'] else lo
            if d['quiet']:
                probe('interval-after-quiet')
            o = ops.get(ev['op'])
            force_end = o['end'] if (o is not None and o.get('force')) else None
            # C04: nothing that was due at or before this instant may still be
            # unapplied when a party is started
            for ouid, od in st.items():
                op_ = od['pending']
                if op_ is None or ouid == uid or op_['lo'] != op_['hi']:
                    continue
                E_o = op_['lo'] + op_['ts_req']
                if op_['force_end'] is not None and E_o > op_['force_end']:
                    E_o = op_['force_end']
                elif prec is not None:
                    E_o = round(E_o, prec)
                if E_o <= T and op_['T'] < T:
                    out.append(V('C04', 'C04.due-update-unapplied', 'plain',
                                 '%s started at %r while the update of %s due at %r is not applied yet' % (
                                     uid, T, ouid, E_o), seq))
                    return out
            d['pending'] = {'n': ev['n'], 'lo': lo, 'hi': hi, 'ts_req': p['ans'],
                            'ts_arg': ev['ts'], 'T': T, 'force_end': force_end,
                            'op': ev['op'], 'seq': seq, 'ev': ev,
                            'end_op': o['end'] if o is not None and 'end' in o else None}
            # the snapshot the party saw must be the fold so far (C01 state form)
            bad = _fold_mismatch(ev.get('snap'), acc)
            if bad:
                out.append(V('C01', 'C01.fold', bad[0],
                             'at NU of %s (T=%r): %s' % (uid, T, bad[1]), seq))
                return out
        elif k == 'APPLY':
            u = ev['uid']
            if not (isinstance(u, (tuple, list)) and len(u) == 2):
                continue
            uid, n = u
            base = uid.split('#')[0]
            if base not in specs:
                continue          # a step's update
            key = (uid, n)
            if key in applied_uids:
                out.append(V('C01', 'C01.apply.twice', 'plain',
                             'update %r applied twice' % (key,), seq))
                return out
            applied_uids.add(key)
            d = party(uid)
            pend = d['pending']
            if pend is None or pend['n'] != n:
                out.append(V('C01', 'C01.apply.unknown', 'plain',
                             'update %r applied but pending is %r' % (key, pend and pend['n']), seq))
                return out
            A = T
            # precision grid (checked first: an off-grid time is a C03 matter)
            if prec is not None and A != round(A, prec):
                out.append(V('C03', 'C03.off-grid', 'apply',
                             'update applied at %r, not on the 1e-%d grid' % (A, prec), seq))
                return out
            ts_req = pend['ts_req']
            lo, hi = pend['lo'], pend['hi']
            fe = pend['force_end']

            def expected_end(S):
                E = S + ts_req
                if fe is not None and E > fe:
                    return fe, True
                if prec is not None:
                    E = round(E, prec)
                return E, False
            ok = False
            trunc = False
            if lo == hi:
                E, trunc = expected_end(lo)
                ok = (A == E)
                S = lo
            else:
                # quiet stretch: any start in [lo, hi] is acceptable
                E_lo, t1 = expected_end(lo)
                E_hi, t2 = expected_end(hi)
                ok = (E_lo <= A <= E_hi)
                trunc = (fe is not None and A == fe and hi + ts_req > fe)
                S = None
            if A < pend['T']:
                ok = False
            if not ok:
                if A < pend['T'] or (S is not None and A < E):
                    rule = 'C01.apply.early'
                else:
                    rule = 'C01.apply.late'
                out.append(V('C01', rule,
                             'quiet' if lo != hi else ('forced' if fe is not None else 'plain'),
                             '%s interval %d: start in [%r,%r], requested %r, handed out at %r, '
                             'applied at %r (expected end %r)' % (
                                 uid, n, lo, hi, ts_req, pend['T'], A,
                                 expected_end(lo)[0] if lo == hi else (E_lo, E_hi)), seq))
                return out
            if trunc:
                probe('truncated-by-force')
                if fe is not None and ts_req > 0 and S is not None:
                    q = (fe - S) / ts_req
                    if q != int(q):
                        probe('truncated-nondividing')
            if pend['op'] != ev['op']:
                probe('interval-spans-ops')
            o_nu = ops.get(pend['op'])
            if o_nu is not None and 'start' in o_nu and lo < o_nu['start'] and lo == hi:
                probe('deferred-across-boundary')
            # C02: timestep argument == interval covered
            ts_arg = pend['ts_arg']
            if S is None:
                S2 = A - ts_arg
                eps = 1e-9 if prec is not None else 0
                good = (lo - eps <= S2 <= hi + eps) and (
                    abs(ts_arg - ts_req) <= eps
                    or (trunc and S2 + ts_req >= fe - eps))
            elif prec is not None:
                good = abs(ts_arg - (A - S)) < 1e-9
            else:
                good = (ts_arg == A - S)
            if not good:
                out.append(V('C02', 'C02.timestep-arg',
                             'truncated' if trunc else 'plain',
                             '%s interval %d covers [%r..%r] but was handed timestep %r' % (
                                 uid, n, S if S is not None else (lo, hi), A, ts_arg),
                             pend['seq']))
                return out
            d['sum_ts'] += ts_arg
            d['last_end'] = A
            d['quiet'] = False
            d['pending'] = None
            d['k'] = n + 1
            batch_times.append(A)
            # fold
            for var, amounts in writes[base].items():
                acc[var] = acc.get(var, 0) + amounts[n % len(amounts)]
        elif k == 'EMIT' and ev.get('table') == 'history':
            row = ev['row']
            rt = row.get('time')
            if rt != T:
                out.append(V('C12', 'C12.time-key', 'plain',
                             'row time %r but engine time %r' % (rt, T), seq))
                return out
            if last_emit_T is not None and not (rt > last_emit_T):
                if not (opts.get('emit_step', 1) != 1 and rt == last_emit_T):
                    out.append(V('C03', 'C03.emit-not-increasing', 'plain',
                                 'row time %r after %r' % (rt, last_emit_T), seq))
                    return out
            last_emit_T = rt
            if prec is not None and rt != round(rt, prec):
                out.append(V('C03', 'C03.off-grid', 'emit',
                             'row emitted at %r, not on the 1e-%d grid' % (rt, prec), seq))
                return out
            bad = _fold_mismatch(ev.get('snap'), acc)
            if bad:
                out.append(V('C01', 'C01.fold', 'emit',
                             'state at emitted time %r: %s (initial + applied updates)' % (rt, bad[1]), seq))
                return out

    if out:
        return out
    if run.exc is not None:
        out.append(V('C01', 'engine-exception', run.exc[1],
                     'op %d raised: %s' % (run.exc[0], run.exc[2])))
        return out

    # ---- end-of-run obligations --------------------------------------------
    completed = run.exc is None
    nops = len(case['ops'])
    last_force = False
    if completed and nops:
        o = ops.get(nops - 1)
        last_force = bool(o and o.get('force'))
    for uid, d in st.items():
        pend = d['pending']
        if pend is None:
            continue
        # an unapplied update: fine only if its interval ends after final_T
        E_lo = pend['lo'] + pend['ts_req']
        if pend['force_end'] is not None:
            E_lo = min(E_lo, pend['force_end'])
        if completed and (E_lo <= final_T or last_force):
            out.append(V('C01', 'C01.apply.lost',
                         'forced' if last_force else 'plain',
                         '%s interval %d (handed out at %r, ends by %r) never applied; final time %r' % (
                             uid, pend['n'], pend['T'], E_lo, final_T), pend['seq']))
            return out
        probe('in-flight-at-end')
    if completed and last_force:
        for uid, d in st.items():
            if not d['ever_quiet'] and d['k'] > 0:
                if d['last_end'] != final_T:
                    out.append(V('C02', 'C02.not-complete', 'plain',
                                 '%s simulated up to %r, global time %r after forced completion' % (
                                     uid, d['last_end'], final_T)))
                    return out
                if prec is None and d['sum_ts'] != final_T - d['created']:
                    out.append(V('C02', 'C02.sum', 'plain',
                                 '%s: timesteps sum to %r, elapsed %r' % (
                                     uid, d['sum_ts'], final_T - d['created'])))
                    return out
        front = run.extra.get('front')
        if front:
            for path, (ft, has) in front.items():
                if ft != final_T or has:
                    out.append(V('C02', 'C02.front', 'quiet' if any(
                        p['ever_quiet'] for p in st.values()) else 'plain',
                        'after forced completion front[%r] = (%r, pending=%r), global time %r' % (
                            path, ft, has, final_T)))
                    return out
    # RAM emitter agrees with the recorded rows (C12 clause carried here)
    stats['final_T'] = final_T
    stats['n_apply'] = len(applied_uids)
    stats['batch_times'] = len(set(batch_times))
    if len(applied_uids) >= 3:
        probe('>=3-applies')
    return out


def _quiet_disc(log):
    """Discriminator for non-termination: was every polled party quiet at
    the end?"""
    last = {}
    for ev in log[-400:]:
        if ev['k'] == 'COND':
            last[ev['uid']] = ev['ans']
    if not last:
        return 'no-parties'
    if all(not a for a in last.values()):
        return 'all-quiet'
    return 'some-running'


def _fold_mismatch(snap, acc):
    if snap is None:
        return None
    sacc = snap.get('acc') or {}
    for v, want in acc.items():
        if sacc.get(v) != want:
            return ('callback', '%s=%r, expected %r' % (v, sacc.get(v), want))
    return None


# ---------------------------------------------------------------------------
# evaluation entry point used by the batch runner / replay
# ---------------------------------------------------------------------------

NONTRIVIAL = {
    'C01': ('quiet-poll', 'interval-after-quiet', 'truncated-by-force',
            'deferred-across-boundary', 'in-flight-at-end', '>=3-applies'),
    'C02': ('truncated-by-force', 'interval-after-quiet', 'deferred-across-boundary'),
    'C03': ('quiet-poll', 'truncated-by-force', 'deferred-across-boundary',
            'precision-run', 'repoll-different'),
    'C04': ('shared-instant',),
    'C12': ('>=3-applies', 'emit-step-differential'),
}


def shape_of(log):
    import hashlib
    h = hashlib.blake2b(digest_size=8)
    for ev in log:
        k = ev['k']
        if k == 'COND':
            if not ev['ans']:
                h.update(('Q%s|' % ev['uid']).encode())
        elif k in ('NU', 'STEPNU'):
            h.update(('N%s.%d|' % (ev['uid'], ev['n'])).encode())
        elif k == 'APPLY':
            h.update(('A%r|' % (ev['uid'],)).encode())
        elif k == 'OPSTART':
            h.update(('O%s%s|' % (ev['name'], ev.get('force'))).encode())
        elif k == 'EMIT':
            h.update(b'E|')
    return int.from_bytes(h.digest(), 'big')


def fault_counts(case, stats):
    p = stats.get('probes', {})
    f = {}
    if p.get('quiet-poll'):
        f['F2-stall'] = p['quiet-poll']
    if p.get('truncated-by-force'):
        f['F4-interrupt-truncate'] = p['truncated-by-force']
    if p.get('deferred-across-boundary'):
        f['F4-interrupt-deferral'] = p['deferred-across-boundary']
    if p.get('repoll-different'):
        f['F3-jitter'] = p['repoll-different']
    return f


def validate(case):
    """Well-formedness of a kernel case (the shrinker may only move inside
    the domain the properties quantify over)."""
    opts = case['opts']
    unit = opts['unit']
    p = opts.get('precision')
    if opts.get('emit_step', 1) < 1:
        raise harness.HarnessError('emit_step < 1')
    if not case['ops'] or not case['procs']:
        if not case['ops']:
            raise harness.HarnessError('no ops')
    cur = tval(opts.get('t0', 0), unit)
    for op in case['ops']:
        if op[0] in ('run_for', 'update'):
            if op[1] < 1:
                raise harness.HarnessError('zero-length interval')
            end = cur + tval(op[1], unit)
            if p is not None:
                end = round(end, p)
            cur = end
    for s in case['procs']:
        if any(v < 1 for v in s['ts']['vals']) or not s['ts']['vals']:
            raise harness.HarnessError('non-positive timestep')
        if s['ts'].get('unit') != unit:
            raise harness.HarnessError('unit mismatch')


def evaluate(case, prop=None):
    validate(case)
    run = execute(case)
    stats = {}
    vs = check(case, run, stats)
    executions = 1
    vs += check_c12(case, run)
    vs += check_c04_instants(case, run, stats)
    if prop in (None, 'C12') and case['opts'].get('emit_step', 1) != 1 and not vs:
        run1 = execute(case, emit_step=1)
        executions += 1
        vs += check_c12_subset(case, run, run1)
        stats.setdefault('probes', {})['emit-step-differential'] = 1
    if prop in (None, 'C04') and commuting(case) and not run.budget_hit:
        from dst.rng import derive
        run_p = execute(case, perm=derive(case['seed'], 'perm'))
        executions += 1
        vs += check_c04_perm(case, run, run_p)
        stats.setdefault('probes', {})['perm-differential'] = 1
    probes = stats.get('probes', {})
    if case['opts'].get('precision') is not None:
        probes['precision-run'] = 1
    # jitter probe: a deferred party re-polled with a different answer
    lastans = {}
    for ev in run.log:
        if ev['k'] == 'POLL':
            a = lastans.get(ev['uid'])
            if a is not None and a[0] != ev['ans'] and a[1]:
                probes['repoll-different'] = probes.get('repoll-different', 0) + 1
            lastans[ev['uid']] = [ev['ans'], True]
        elif ev['k'] in ('NU',):
            if ev['uid'] in lastans:
                lastans[ev['uid']][1] = False
        elif ev['k'] == 'COND' and not ev['ans']:
            if ev['uid'] in lastans:
                lastans[ev['uid']][1] = False
    keys = NONTRIVIAL.get(prop) or NONTRIVIAL['C01']
    nontrivial = any(probes.get(k) for k in keys)
    return {
        'violations': vs, 'probes': probes, 'nontrivial': nontrivial,
        'shape': shape_of(run.log), 'events': len(run.log),
        'sim_seconds': (stats.get('final_T', 0) or 0) - tval(case['opts'].get('t0', 0), case['opts']['unit']),
        'faults': fault_counts(case, stats), 'executions': executions,
        'digest': run.digest,
    }


# ---------------------------------------------------------------------------
# C12: the emitted history (clauses decidable on kernel runs)
# ---------------------------------------------------------------------------

def emit_flags(case):
    """Model of the emit flag of every leaf, from schemas and store_schema."""
    flags = {}
    noemit = set()
    for sp in case['procs'] + case.get('steps', []):
        noemit |= set(sp.get('noemit') or [])
        for v in sp.get('vars', []):
            flags[('acc', v)] = v not in (sp.get('noemit') or [])
        for v in sp.get('fvars') or []:
            flags[('flags', v)] = True
        if sp.get('condition_path'):
            flags[tuple(sp['condition_path'])] = True
    for sp in case.get('steps', []):
        if sp.get('cls') == 'FStep':
            flags[('tok', sp['name'])] = True
            for gs in (sp.get('gen') or {}).get('steps', []):
                flags[('tok', gs['name'])] = True
        else:
            flags[('out', sp['name'] + '_n')] = True
            flags[('out', sp['name'] + '_sum')] = True
    flags[('verif_probe',)] = False
    flags['world-alive'] = any(sp.get('kill') or sp.get('gen') or sp.get('watch') for sp in case.get('steps', []))
    ss = case.get('store_schema') or {}

    def walk(d, path):
        if '_emit' in d:
            for k in list(flags):
                if not isinstance(k, tuple):
                    continue
                if k[:len(path)] == path and len(k) > len(path):
                    flags[k] = d['_emit']
                elif k == path:
                    flags[k] = d['_emit']
        for key, sub in d.items():
            if isinstance(sub, dict):
                walk(sub, path + (key,))
    walk(ss, ())
    return flags


def leaves(d, path=()):
    out = {}
    if isinstance(d, dict):
        for k, v in d.items():
            out.update(leaves(v, path + (k,)))
    else:
        out[path] = d
    return out


def check_c12(case, run):
    out = []
    log = run.log
    opts = case['opts']
    emits = [e for e in log if e['k'] == 'EMIT']
    if not emits:
        if run.exc is None:
            out.append(V('C12', 'C12.no-config', 'plain', 'nothing was emitted'))
        return out
    if emits[0].get('table') != 'configuration':
        out.append(V('C12', 'C12.no-config', 'plain',
                     'first emit is %r, not the configuration record' % emits[0].get('table'), emits[0]['seq']))
        return out
    if sum(1 for e in emits if e.get('table') == 'configuration') != 1:
        out.append(V('C12', 'C12.config-count', 'plain', 'more than one configuration record'))
        return out
    rows = [e for e in emits if e.get('table') == 'history']
    unit = opts['unit']
    t0 = tval(opts.get('t0', 0), unit)
    if not rows or rows[0]['row'].get('time') != t0 or rows[0]['op'] != -1:
        out.append(V('C12', 'C12.t0-row', 'plain',
                     'no history row for the initial time %r emitted by the constructor' % t0))
        return out
    # the initial row comes after the constructor's step phase
    for e in log:
        if e['k'] == 'STEPNU' and e['op'] == -1 and e['seq'] > rows[0]['seq']:
            out.append(V('C12', 'C12.t0-row', 'before-steps',
                         'initial row emitted before the initial step phase finished', e['seq']))
            return out
    flags = emit_flags(case)
    world_alive = flags.pop('world-alive', False)
    want_paths = set(k for k, f in flags.items() if f)
    for e in rows:
        got = leaves({k: v for k, v in e['row'].items() if k != 'time'})
        got = {k: v for k, v in got.items() if v != {}}
        snap = leaves(e['snap'] or {})
        exp = {}
        for pth in want_paths:
            if pth in snap:
                exp[pth] = snap[pth]
        if world_alive:
            for pth, val in snap.items():
                if len(pth) == 3 and pth[0] == 'world' and pth[2] == 'alive':
                    exp[pth] = val
        if got != exp:
            extra = sorted(set(got) - set(exp))
            missing = sorted(set(exp) - set(got))
            diff = sorted(k for k in set(got) & set(exp) if got[k] != exp[k])
            disc = 'extra' if extra else ('missing' if missing else 'value')
            out.append(V('C12', 'C12.row-content', disc,
                         'row at %r: extra %r missing %r different %r' % (
                             e['row'].get('time'), extra[:4], missing[:4],
                             [(k, got[k], exp[k]) for k in diff[:3]]), e['seq']))
            return out
    completed = run.exc is None
    if opts.get('emit_step', 1) == 1 and completed:
        specs = set(sp['name'] for sp in case['procs'])
        batch_times = []
        for e in log:
            if e['k'] == 'APPLY' and isinstance(e['uid'], (tuple, list)) \
                    and e['uid'][0].split('#')[0] in specs:
                if not batch_times or batch_times[-1] != e['T']:
                    batch_times.append(e['T'])
        row_times = [e['row']['time'] for e in rows[1:]]
        if row_times != batch_times:
            extra = [t for t in row_times if t not in batch_times]
            missing = [t for t in batch_times if t not in row_times]
            out.append(V('C12', 'C12.rows-vs-batches',
                         'extra' if extra else ('missing' if missing else 'order'),
                         'rows at %r..., updates applied at %r... (extra %r, missing %r)' % (
                             row_times[:6], batch_times[:6], extra[:4], missing[:4])))
            return out
    # the RAM emitter behind the recorder tells the same story
    ram = run.extra.get('ram')
    if completed and ram is not None:
        rt = {}
        for e in rows:
            rt[e['row']['time']] = {k: v for k, v in e['row'].items() if k != 'time'}
        if list(ram.keys()) != list(rt.keys()):
            out.append(V('C12', 'C12.ram-times', 'plain',
                         'RAMEmitter times %r != emitted %r' % (list(ram)[:8], list(rt)[:8])))
            return out
        for t, r_ in rt.items():
            if leaves(ram[t]) != leaves(r_):
                out.append(V('C12', 'C12.ram-row', 'plain',
                             'RAMEmitter row at %r differs from the emitted one' % t))
                return out
    return out


def check_c12_subset(case, run_k, run_1):
    """emit_step > 1: rows are a subset of the emit_step == 1 rows."""
    out = []
    full = {}
    for e in run_1.log:
        if e['k'] == 'EMIT' and e.get('table') == 'history':
            full[e['row']['time']] = e['row']
    n = 0
    for e in run_k.log:
        if e['k'] == 'EMIT' and e.get('table') == 'history':
            t = e['row']['time']
            n += 1
            if t not in full:
                out.append(V('C12', 'C12.emit-step-subset', 'extra-time',
                             'emit_step=%r emitted a row at %r that the emit_step=1 run does not have' % (
                                 case['opts']['emit_step'], t), e['seq']))
                return out
            if leaves(full[t]) != leaves(e['row']):
                out.append(V('C12', 'C12.emit-step-subset', 'content',
                             'row at %r differs between emit_step=%r and emit_step=1' % (
                                 t, case['opts']['emit_step']), e['seq']))
                return out
    return out


# ---------------------------------------------------------------------------
# C04: one committed snapshot per instant; declaration order is moot
# ---------------------------------------------------------------------------

def check_c04_instants(case, run, stats=None):
    out = []
    cur = None
    cur_first = None
    n_shared = 0
    specs = {sp['name']: sp for sp in case['procs']}
    allspecs = dict(specs)
    allspecs.update({sp['name']: sp for sp in case.get('steps', [])})
    for e in run.log:
        k = e['k']
        if k in ('APPLY', 'OPSTART', 'OPEND'):
            cur = None
            continue
        if k in ('POLL', 'NU', 'STEPNU'):
            snap = e.get('snap')
            if snap is None:
                continue
            if cur is None:
                cur = snap
                cur_first = e
            else:
                if snap != cur:
                    out.append(V('C04', 'C04.snapshot-changed', k,
                                 'state changed between %s of %s (event %d) and %s of %s (event %d) '
                                 'with no update applied in between' % (
                                     cur_first['k'], cur_first['uid'], cur_first['seq'], k, e['uid'], e['seq']),
                                 e['seq']))
                    return out
                n_shared += 1
            # the view is the projection of that snapshot on the declared variables
            sp = allspecs.get(e['uid'].split('#')[0])
            view = e.get('view')
            if sp is not None and view is not None:
                want = expected_view(sp, snap, sp['name'] in specs)
                if view != want:
                    out.append(V('C04', 'C04.view-not-snapshot', k,
                                 '%s of %s at %r saw %r, committed state projects to %r' % (
                                     k, e['uid'], e['T'], view, want), e['seq']))
                    return out
    if stats is not None:
        stats.setdefault('probes', {})
        if n_shared:
            stats['probes']['shared-instant'] = stats['probes'].get('shared-instant', 0) + n_shared
    return out


def expected_view(sp, snap, is_proc):
    """Projection of a full-state snapshot on the variables a kernel/steps
    party declares (root-level stores acc / flags / out / tok / world)."""
    acc = snap.get('acc') or {}
    want = {'acc': {v: acc.get(v) for v in sp.get('vars', [])},
            'probe': snap.get('verif_probe')}
    if sp.get('cls') == 'FStep':
        names = [sp['name']] + [r_ for r_ in sp.get('reads', []) if r_ != sp['name']]
        names += [g['name'] for g in (sp.get('gen') or {}).get('steps', [])]
        tok = snap.get('tok') or {}
        want['tok'] = {n: tok.get(n) for n in names}
        if sp.get('kill') or sp.get('gen') or sp.get('watch'):
            world = snap.get('world') or {}
            want['world'] = {c: {'alive': (world[c] or {}).get('alive')}
                             for c in world}
        return want
    if is_proc:
        if sp.get('fvars') or sp.get('condition_path'):
            fv = list(sp.get('fvars') or [])
            if sp.get('condition_path') and sp['condition_path'][1] not in fv:
                fv.append(sp['condition_path'][1])
            want['flags'] = {v: (snap.get('flags') or {}).get(v) for v in fv}
    else:
        out_ = snap.get('out') or {}
        want['out'] = {sp['name'] + '_n': out_.get(sp['name'] + '_n'),
                       sp['name'] + '_sum': out_.get(sp['name'] + '_sum')}
    return want


def rows_of(run):
    return [(e['row'].get('time'), {k: v for k, v in e['row'].items() if k != 'time'})
            for e in run.log if e['k'] == 'EMIT' and e.get('table') == 'history']


def commuting(case):
    """Oracle B only applies when the updates involved commute."""
    writers = sum(1 for sp in case['procs'] if sp.get('flags'))
    # flow-less derivers that read each other are order-dependent by contract
    ders = [sp for sp in case.get('steps', []) if sp.get('flow') is None and sp.get('reads')]
    return writers <= 1 and len(ders) <= 1


def check_c04_perm(case, run, run_p):
    out = []
    if (run.exc is None) != (run_p.exc is None):
        out.append(V('C04', 'C04.perm-outcome', 'exception',
                     'one listing order raised (%r), the permuted one did not (%r)' % (
                         run.exc and run.exc[1], run_p.exc and run_p.exc[1])))
        return out
    a, b = rows_of(run), rows_of(run_p)
    if len(a) != len(b):
        out.append(V('C04', 'C04.perm-trajectory', 'length',
                     'trajectories differ in length under a permuted listing order: %d vs %d rows' % (len(a), len(b))))
        return out
    for (ta, ra), (tb, rb) in zip(a, b):
        if ta != tb or leaves(ra) != leaves(rb):
            la, lb = leaves(ra), leaves(rb)
            diff = sorted(k for k in set(la) | set(lb) if la.get(k) != lb.get(k))
            out.append(V('C04', 'C04.perm-trajectory', 'row',
                         'rows differ under a permuted listing order at time %r/%r: %r' % (
                             ta, tb, [(k, la.get(k), lb.get(k)) for k in diff[:3]])))
            return out
    return out
