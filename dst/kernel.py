"""Kernel profile: multi-timestep scheduling (C01, C02, C03; carries C08/C12
clauses).  Case generator, executor and history oracles."""

from fractions import Fraction

from dst.rng import Rng
from dst import harness
from dst.harness import tval
from dst.rec import REC

PROFILE = 'kernel'
DYADIC = [1, 8]


# ---------------------------------------------------------------------------
# generation
# ---------------------------------------------------------------------------

def gen_case(seed):
    r = Rng(seed)
    swarm = {
        'precision': r.chance(22),
        'quiet': r.chance(60),
        'jitter': r.chance(55),
        'interrupt': r.chance(75),
        'steps': r.chance(40),
        'nested': r.chance(25),
        'long': r.chance(15),
        'flags': r.chance(30),
        't0': r.chance(20),
        'noforce_end': r.chance(20),
    }
    if swarm['precision']:
        p = r.pick([1, 1, 2, 3])
        unit = [1, 10 ** p]
        # keep runs short in grid units so that spans stay small
        tsmax = r.pick([9, 15, 30])
    else:
        p = None
        unit = list(DYADIC)
        tsmax = r.pick([8, 16, 24])
    nvars = r.rint(1, 3)
    avars = ['a%d' % i for i in range(nvars)]
    nprocs = r.pick([1, 1, 2, 2, 2, 3, 3, 4, 5, 6])
    fvars = ['f0'] if swarm['flags'] else []
    procs = []
    for i in range(nprocs):
        name = 'p%d' % i
        spec = {'name': name, 'vars': avars, 'fvars': fvars}
        # timestep
        m = r.below(100)
        if not swarm['jitter'] or m < 45:
            spec['ts'] = {'mode': 'const', 'vals': [r.rint(1, tsmax)]}
        elif m < 70:
            spec['ts'] = {'mode': 'poll',
                          'vals': [r.rint(1, tsmax) for _ in range(r.rint(2, 8))]}
        elif m < 85:
            spec['ts'] = {'mode': 'interval',
                          'vals': [r.rint(1, tsmax) for _ in range(r.rint(2, 8))]}
        else:
            spec['ts'] = {'mode': 'var', 'var': ['acc', r.pick(avars)],
                          'vals': [r.rint(1, tsmax) for _ in range(r.rint(2, 5))]}
        if swarm['long'] and r.chance(30):
            spec['ts'] = {'mode': 'const', 'vals': [r.rint(200, 4000)]}
        spec['ts']['unit'] = unit
        # condition
        c = r.below(100)
        if not swarm['quiet'] or c < 45:
            spec['cond'] = {'mode': 'none'}
        elif c < 70:
            ptrue = r.pick([0, 20, 50, 80])
            spec['cond'] = {'mode': 'poll', 'vals': [
                1 if r.chance(ptrue) else 0 for _ in range(r.rint(1, 10))]}
        elif c < 85:
            spec['cond'] = {'mode': 'interval', 'vals': [
                r.pick([0, 0, 1, 2, 3]) for _ in range(r.rint(1, 6))]}
        elif c < 92 or not fvars:
            spec['cond'] = {'mode': 'var', 'var': ['acc', r.pick(avars)],
                            'vals': [r.pick([0, 1, 1]) for _ in range(r.rint(2, 4))]}
        else:
            spec['cond'] = {'mode': 'param'}
            spec['condition_path'] = ['flags', 'f0']
        # writes
        ws = r.sample(avars, r.rint(1, min(2, nvars)))
        spec['writes'] = [
            [v, [r.rint(1, (1 << 30) - 1) for _ in range(r.rint(1, 5))]]
            for v in ws]
        if fvars and r.chance(50):
            spec['flags'] = [['f0', [r.below(2) for _ in range(r.rint(1, 6))]]]
        path = [name]
        if swarm['nested'] and r.chance(50):
            path = ['c%d' % r.below(2)] + path
            if r.chance(30):
                path = ['d0'] + path
        spec['path'] = path
        procs.append(spec)
    steps = []
    if swarm['steps']:
        for i in range(r.rint(1, 2)):
            steps.append({'name': 's%d' % i, 'vars': avars, 'path': ['s%d' % i],
                          'where': r.pick(['steps', 'steps', 'processes']),
                          'flow': r.pick([None, []])})
    # driver ops
    ops = []
    nops = r.rint(1, 6) if swarm['interrupt'] else r.rint(1, 2)
    budget_units = r.pick([16, 40, 80, 160, 256])
    for i in range(nops):
        if swarm['interrupt'] and r.chance(35):
            units = r.rint(1, max(1, tsmax // 2))   # shorter than most timesteps
        else:
            units = r.rint(1, max(1, budget_units // nops))
        kind = r.below(100)
        if kind < 45:
            ops.append(['run_for', units, False])
        elif kind < 70:
            ops.append(['run_for', units, True])
        else:
            ops.append(['update', units])
    if not swarm['noforce_end'] and ops[-1][0] == 'run_for' and not ops[-1][2]:
        ops[-1] = r.pick([['update', ops[-1][1]], ['run_for', ops[-1][1], True]])
    t0u = r.rint(1, 40) if swarm['t0'] else 0
    if p is not None:
        # the property speaks of runs on the 10^-p grid: keep every requested
        # end time (float start + interval) exactly on it
        cur = tval(t0u, unit)
        for op in ops:
            for _ in range(60):
                end = cur + tval(op[1], unit)
                if end == round(end, p):
                    break
                op[1] = op[1] + 1
            else:
                raise harness.HarnessError('no on-grid interval found')
            cur = end
    init = {}
    if r.chance(40):
        init = {'acc': {v: r.rint(0, 1000) for v in avars if r.chance(60)}}
    case = {
        'profile': PROFILE, 'seed': seed,
        'opts': {'precision': p, 'unit': unit, 'emit_step': 1,
                 't0': t0u},
        'procs': procs, 'steps': steps, 'init': init, 'ops': ops,
        'swarm': sorted(k for k, v in swarm.items() if v),
    }
    return case


# ---------------------------------------------------------------------------
# execution
# ---------------------------------------------------------------------------

def _topology_for(spec, depth):
    up = ('..',) * depth
    topo = {'acc': up + ('acc',), 'probe': up + ('verif_probe',)}
    if spec.get('fvars') or spec.get('condition_path'):
        topo['flags'] = up + ('flags',)
    return topo


def build(case, parallel=()):
    from dst.parties import KProc, KStep
    processes, steps, topology, flow = {}, {}, {}, {}
    for spec in case['procs']:
        params = {'spec': spec}
        if spec.get('condition_path'):
            params['_condition'] = tuple(spec['condition_path'])
        if spec['name'] in parallel or spec.get('parallel'):
            params['_parallel'] = True
        proc = KProc(params)
        path = spec['path']
        harness.assoc(processes, path, proc)
        harness.assoc(topology, path, _topology_for(spec, len(path) - 1))
    for spec in case.get('steps', []):
        params = {'spec': spec}
        st = KStep(params)
        path = spec['path']
        topo = _topology_for(spec, len(path) - 1)
        topo.pop('flags', None)
        topo['out'] = ('..',) * (len(path) - 1) + ('out',)
        harness.assoc(processes if spec.get('where') == 'processes' else steps,
                      path, st)
        harness.assoc(topology, path, topo)
        if spec.get('flow') is not None:
            harness.assoc(flow, path, [tuple(d) for d in spec['flow']])
    return processes, steps, topology, flow


def budget_for(case, units):
    n = len(case['procs']) + len(case.get('steps', [])) + 2
    return 4000 * (units + 20) * n


def execute(case, parallel=()):
    import copy
    opts = case['opts']
    unit = opts['unit']
    t0 = tval(opts.get('t0', 0), unit)
    run = harness.Run()
    harness.begin_run(t0)
    try:
        processes, steps, topology, flow = build(case, parallel)
        eng = harness.make_engine(
            run, budget_for(case, 1),
            processes=processes, steps=steps, topology=topology, flow=flow,
            initial_state=copy.deepcopy(case.get('init') or {}),
            global_time_precision=opts.get('precision'),
            emit_step=opts.get('emit_step', 1),
            initial_global_time=t0)
        if eng is not None:
            harness.drive(run, eng, case['ops'], unit,
                          lambda op: budget_for(case, op[1] if len(op) > 1 else 1))
            if run.exc is None:
                try:
                    run.extra['front'] = {
                        path: (f['time'], bool(f['update']))
                        for path, f in eng.front.items()}
                except Exception:
                    run.extra['front'] = None
                run.extra['ram'] = run.emitter.get_data() if run.emitter else None
    finally:
        harness.end_run()
    return harness.finish(run)


# ---------------------------------------------------------------------------
# oracles
# ---------------------------------------------------------------------------

def V(prop, rule, disc, detail, seq=None):
    return {'prop': prop, 'rule': rule, 'disc': disc, 'detail': detail,
            'seq': seq}


def _close(a, b, tol):
    if tol == 0:
        return a == b
    return abs(a - b) <= tol * max(1.0, abs(a), abs(b))


def check(case, run, stats=None):
    """Evaluate the kernel oracles over the recorded history.  Returns a list
    of violations (each tagged with the property it belongs to), first
    violation first.  `stats` collects probes."""
    stats = stats if stats is not None else {}
    probes = stats.setdefault('probes', {})

    def probe(name, n=1):
        probes[name] = probes.get(name, 0) + n

    out = []
    opts = case['opts']
    prec = opts.get('precision')
    unit = opts['unit']
    t0 = tval(opts.get('t0', 0), unit)
    log = run.log
    tol = 0

    # ---- termination / exceptions ------------------------------------
    if run.budget_hit:
        i = run.exc[0] if run.exc else None
        out.append(V('C03', 'C03.no-termination', _quiet_disc(log),
                     'op %s exceeded the backward-jump budget' % i))
        return out
    specs = {s['name']: s for s in case['procs']}
    writes = {}
    for s in case['procs']:
        writes[s['name']] = {v: a for v, a in s.get('writes', [])}

    # ---- walk the log ---------------------------------------------------
    st = {}       # party uid -> dict
    ops = {}      # op index -> OPSTART event
    acc = dict((case.get('init') or {}).get('acc') or {})
    all_vars = set()
    for s in case['procs']:
        all_vars.update(s.get('vars', []))
    for v in all_vars:
        acc.setdefault(v, 0)
    lastT = t0
    last_emit_T = None
    final_T = t0
    cur_op = None
    applied_uids = set()
    op_done = {}
    batch_times = []   # times at which an APPLY of a process happened

    def party(uid):
        d = st.get(uid)
        if d is None:
            d = st[uid] = {
                'last_end': t0, 'fr_end': Fraction(opts.get('t0', 0) * unit[0], unit[1]),
                'quiet': False, 'poll': None, 'cond': None, 'pending': None,
                'k': 0, 'sum_ts': 0, 'ever_quiet': False, 'created': t0}
        return d

    for ev in log:
        k = ev['k']
        T = ev['T']
        seq = ev['seq']
        # C03 monotone clock
        if T < lastT:
            out.append(V('C03', 'C03.clock-backwards',
                         'after-quiet' if any(p['ever_quiet'] for p in st.values()) else 'plain',
                         'time went %r -> %r at event %d (%s)' % (lastT, T, seq, k), seq))
            return out
        lastT = T
        if cur_op is not None and 'end' in cur_op and T > cur_op['end']:
            out.append(V('C03', 'C03.clock-past-end', 'plain',
                         'time %r beyond end %r of op %d' % (T, cur_op['end'], cur_op['op']), seq))
            return out

        if k == 'OPSTART':
            cur_op = ev
            ops[ev['op']] = ev
        elif k == 'OPEND':
            if ev.get('exc') is None and cur_op is not None and 'end' in cur_op:
                if T != cur_op['end']:
                    out.append(V('C03', 'C03.not-on-end', 'plain',
                                 'op %d returned at %r, expected %r' % (ev['op'], T, cur_op['end']), seq))
                    return out
                op_done[ev['op']] = True
            final_T = T
        elif k == 'POLL':
            uid = ev['uid']
            if uid.split('#')[0] not in specs:
                continue
            d = party(uid)
            d['poll'] = ev
            d['cond'] = None
            if ev['ans'] <= 0:
                raise harness.HarnessError('non-positive timestep generated')
        elif k == 'COND':
            uid = ev['uid']
            if uid.split('#')[0] not in specs:
                continue
            d = party(uid)
            d['cond'] = ev
            if not ev['ans']:
                d['quiet'] = True
                d['ever_quiet'] = True
                probe('quiet-poll')
        elif k == 'NU':
            uid = ev['uid']
            d = party(uid)
            if d['pending'] is not None:
                out.append(V('C02', 'C02.overlap', 'nu-while-pending',
                             '%s invoked for interval %d while interval %d is unapplied' % (
                                 uid, ev['n'], d['pending']['n']), seq))
                return out
            c = d['cond']
            if c is not None and not c['ans']:
                out.append(V('C01', 'C01.quiet-contributes', 'nu-after-false',
                             '%s invoked although its condition was false' % uid, seq))
                return out
            p = d['poll']
            if p is None:
                out.append(V('C02', 'C02.no-poll', 'plain',
                             '%s invoked without a timestep request' % uid, seq))
                return out
            lo = d['last_end']
            hi = T if d['quiet'] else lo
            if d['quiet']:
                probe('interval-after-quiet')
            o = ops.get(ev['op'])
            force_end = o['end'] if (o is not None and o.get('force')) else None
            d['pending'] = {'n': ev['n'], 'lo': lo, 'hi': hi, 'ts_req': p['ans'],
                            'ts_arg': ev['ts'], 'T': T, 'force_end': force_end,
                            'op': ev['op'], 'seq': seq, 'ev': ev,
                            'end_op': o['end'] if o is not None and 'end' in o else None}
            # the snapshot the party saw must be the fold so far (C01 state form)
            bad = _fold_mismatch(ev.get('snap'), acc)
            if bad:
                out.append(V('C01', 'C01.fold', bad[0],
                             'at NU of %s (T=%r): %s' % (uid, T, bad[1]), seq))
                return out
        elif k == 'APPLY':
            u = ev['uid']
            if not (isinstance(u, (tuple, list)) and len(u) == 2):
                continue
            uid, n = u
            base = uid.split('#')[0]
            if base not in specs:
                continue          # a step's update
            key = (uid, n)
            if key in applied_uids:
                out.append(V('C01', 'C01.apply.twice', 'plain',
                             'update %r applied twice' % (key,), seq))
                return out
            applied_uids.add(key)
            d = party(uid)
            pend = d['pending']
            if pend is None or pend['n'] != n:
                out.append(V('C01', 'C01.apply.unknown', 'plain',
                             'update %r applied but pending is %r' % (key, pend and pend['n']), seq))
                return out
            A = T
            # precision grid (checked first: an off-grid time is a C03 matter)
            if prec is not None and A != round(A, prec):
                out.append(V('C03', 'C03.off-grid', 'apply',
                             'update applied at %r, not on the 1e-%d grid' % (A, prec), seq))
                return out
            ts_req = pend['ts_req']
            lo, hi = pend['lo'], pend['hi']
            fe = pend['force_end']

            def expected_end(S):
                E = S + ts_req
                if fe is not None and E > fe:
                    return fe, True
                if prec is not None:
                    E = round(E, prec)
                return E, False
            ok = False
            trunc = False
            if lo == hi:
                E, trunc = expected_end(lo)
                ok = (A == E)
                S = lo
            else:
                # quiet stretch: any start in [lo, hi] is acceptable
                E_lo, t1 = expected_end(lo)
                E_hi, t2 = expected_end(hi)
                ok = (E_lo <= A <= E_hi)
                trunc = (fe is not None and A == fe and hi + ts_req > fe)
                S = None
            if A < pend['T']:
                ok = False
            if not ok:
                if A < pend['T'] or (S is not None and A < E):
                    rule = 'C01.apply.early'
                else:
                    rule = 'C01.apply.late'
                out.append(V('C01', rule,
                             'quiet' if lo != hi else ('forced' if fe is not None else 'plain'),
                             '%s interval %d: start in [%r,%r], requested %r, handed out at %r, '
                             'applied at %r (expected end %r)' % (
                                 uid, n, lo, hi, ts_req, pend['T'], A,
                                 expected_end(lo)[0] if lo == hi else (E_lo, E_hi)), seq))
                return out
            if trunc:
                probe('truncated-by-force')
                if fe is not None and ts_req > 0 and S is not None:
                    q = (fe - S) / ts_req
                    if q != int(q):
                        probe('truncated-nondividing')
            if pend['op'] != ev['op']:
                probe('interval-spans-ops')
            o_nu = ops.get(pend['op'])
            if o_nu is not None and 'start' in o_nu and lo < o_nu['start'] and lo == hi:
                probe('deferred-across-boundary')
            # C02: timestep argument == interval covered
            ts_arg = pend['ts_arg']
            if S is None:
                S2 = A - ts_arg
                eps = 1e-9 if prec is not None else 0
                good = (lo - eps <= S2 <= hi + eps) and (
                    abs(ts_arg - ts_req) <= eps
                    or (trunc and S2 + ts_req >= fe - eps))
            elif prec is not None:
                good = abs(ts_arg - (A - S)) < 1e-9
            else:
                good = (ts_arg == A - S)
            if not good:
                out.append(V('C02', 'C02.timestep-arg',
                             'truncated' if trunc else 'plain',
                             '%s interval %d covers [%r..%r] but was handed timestep %r' % (
                                 uid, n, S if S is not None else (lo, hi), A, ts_arg),
                             pend['seq']))
                return out
            d['sum_ts'] += ts_arg
            d['last_end'] = A
            d['quiet'] = False
            d['pending'] = None
            d['k'] = n + 1
            batch_times.append(A)
            # fold
            for var, amounts in writes[base].items():
                acc[var] = acc.get(var, 0) + amounts[n % len(amounts)]
        elif k == 'EMIT' and ev.get('table') == 'history':
            row = ev['row']
            rt = row.get('time')
            if rt != T:
                out.append(V('C12', 'C12.time-key', 'plain',
                             'row time %r but engine time %r' % (rt, T), seq))
                return out
            if last_emit_T is not None and not (rt > last_emit_T):
                out.append(V('C03', 'C03.emit-not-increasing', 'plain',
                             'row time %r after %r' % (rt, last_emit_T), seq))
                return out
            last_emit_T = rt
            if prec is not None and rt != round(rt, prec):
                out.append(V('C03', 'C03.off-grid', 'emit',
                             'row emitted at %r, not on the 1e-%d grid' % (rt, prec), seq))
                return out
            racc = row.get('acc') or {}
            for v in all_vars:
                if racc.get(v) != acc[v]:
                    out.append(V('C01', 'C01.fold', 'emit',
                                 'row at %r: %s=%r, expected %r (initial + applied updates)' % (
                                     rt, v, racc.get(v), acc[v]), seq))
                    return out

    if out:
        return out
    if run.exc is not None:
        out.append(V('C01', 'engine-exception', run.exc[1],
                     'op %d raised: %s' % (run.exc[0], run.exc[2])))
        return out

    # ---- end-of-run obligations --------------------------------------------
    completed = run.exc is None
    nops = len(case['ops'])
    last_force = False
    if completed and nops:
        o = ops.get(nops - 1)
        last_force = bool(o and o.get('force'))
    for uid, d in st.items():
        pend = d['pending']
        if pend is None:
            continue
        # an unapplied update: fine only if its interval ends after final_T
        E_lo = pend['lo'] + pend['ts_req']
        if pend['force_end'] is not None:
            E_lo = min(E_lo, pend['force_end'])
        if completed and (E_lo <= final_T or last_force):
            out.append(V('C01', 'C01.apply.lost',
                         'forced' if last_force else 'plain',
                         '%s interval %d (handed out at %r, ends by %r) never applied; final time %r' % (
                             uid, pend['n'], pend['T'], E_lo, final_T), pend['seq']))
            return out
        probe('in-flight-at-end')
    if completed and last_force:
        for uid, d in st.items():
            if not d['ever_quiet'] and d['k'] > 0:
                if d['last_end'] != final_T:
                    out.append(V('C02', 'C02.not-complete', 'plain',
                                 '%s simulated up to %r, global time %r after forced completion' % (
                                     uid, d['last_end'], final_T)))
                    return out
                if prec is None and d['sum_ts'] != final_T - d['created']:
                    out.append(V('C02', 'C02.sum', 'plain',
                                 '%s: timesteps sum to %r, elapsed %r' % (
                                     uid, d['sum_ts'], final_T - d['created'])))
                    return out
        front = run.extra.get('front')
        if front:
            for path, (ft, has) in front.items():
                if ft != final_T or has:
                    out.append(V('C02', 'C02.front', 'quiet' if any(
                        p['ever_quiet'] for p in st.values()) else 'plain',
                        'after forced completion front[%r] = (%r, pending=%r), global time %r' % (
                            path, ft, has, final_T)))
                    return out
    # RAM emitter agrees with the recorded rows (C12 clause carried here)
    stats['final_T'] = final_T
    stats['n_apply'] = len(applied_uids)
    stats['batch_times'] = len(set(batch_times))
    if len(applied_uids) >= 3:
        probe('>=3-applies')
    return out


def _quiet_disc(log):
    """Discriminator for non-termination: was every polled party quiet at
    the end?"""
    last = {}
    for ev in log[-400:]:
        if ev['k'] == 'COND':
            last[ev['uid']] = ev['ans']
    if not last:
        return 'no-parties'
    if all(not a for a in last.values()):
        return 'all-quiet'
    return 'some-running'


def _fold_mismatch(snap, acc):
    if snap is None:
        return None
    sacc = snap.get('acc') or {}
    for v, want in acc.items():
        if sacc.get(v) != want:
            return ('callback', '%s=%r, expected %r' % (v, sacc.get(v), want))
    return None


# ---------------------------------------------------------------------------
# evaluation entry point used by the batch runner / replay
# ---------------------------------------------------------------------------

NONTRIVIAL = {
    'C01': ('quiet-poll', 'interval-after-quiet', 'truncated-by-force',
            'deferred-across-boundary', 'in-flight-at-end', '>=3-applies'),
    'C02': ('truncated-by-force', 'interval-after-quiet', 'deferred-across-boundary'),
    'C03': ('quiet-poll', 'truncated-by-force', 'deferred-across-boundary',
            'precision-run', 'repoll-different'),
}


def shape_of(log):
    import hashlib
    h = hashlib.blake2b(digest_size=8)
    for ev in log:
        k = ev['k']
        if k == 'COND':
            if not ev['ans']:
                h.update(('Q%s|' % ev['uid']).encode())
        elif k in ('NU', 'STEPNU'):
            h.update(('N%s.%d|' % (ev['uid'], ev['n'])).encode())
        elif k == 'APPLY':
            h.update(('A%r|' % (ev['uid'],)).encode())
        elif k == 'OPSTART':
            h.update(('O%s%s|' % (ev['name'], ev.get('force'))).encode())
        elif k == 'EMIT':
            h.update(b'E|')
    return int.from_bytes(h.digest(), 'big')


def fault_counts(case, stats):
    p = stats.get('probes', {})
    f = {}
    if p.get('quiet-poll'):
        f['F2-stall'] = p['quiet-poll']
    if p.get('truncated-by-force'):
        f['F4-interrupt-truncate'] = p['truncated-by-force']
    if p.get('deferred-across-boundary'):
        f['F4-interrupt-deferral'] = p['deferred-across-boundary']
    if p.get('repoll-different'):
        f['F3-jitter'] = p['repoll-different']
    return f


def validate(case):
    """Well-formedness of a kernel case (the shrinker may only move inside
    the domain the properties quantify over)."""
    opts = case['opts']
    unit = opts['unit']
    p = opts.get('precision')
    if opts.get('emit_step', 1) < 1:
        raise harness.HarnessError('emit_step < 1')
    if not case['ops'] or not case['procs']:
        if not case['ops']:
            raise harness.HarnessError('no ops')
    cur = tval(opts.get('t0', 0), unit)
    for op in case['ops']:
        if op[0] in ('run_for', 'update'):
            if op[1] < 1:
                raise harness.HarnessError('zero-length interval')
            end = cur + tval(op[1], unit)
            if p is not None and end != round(end, p):
                raise harness.HarnessError('off-grid end time')
            cur = end
    for s in case['procs']:
        if any(v < 1 for v in s['ts']['vals']) or not s['ts']['vals']:
            raise harness.HarnessError('non-positive timestep')
        if s['ts'].get('unit') != unit:
            raise harness.HarnessError('unit mismatch')


def evaluate(case, prop=None):
    validate(case)
    run = execute(case)
    stats = {}
    vs = check(case, run, stats)
    probes = stats.get('probes', {})
    if case['opts'].get('precision') is not None:
        probes['precision-run'] = 1
    # jitter probe: a deferred party re-polled with a different answer
    lastans = {}
    for ev in run.log:
        if ev['k'] == 'POLL':
            a = lastans.get(ev['uid'])
            if a is not None and a[0] != ev['ans'] and a[1]:
                probes['repoll-different'] = probes.get('repoll-different', 0) + 1
            lastans[ev['uid']] = [ev['ans'], True]
        elif ev['k'] in ('NU',):
            if ev['uid'] in lastans:
                lastans[ev['uid']][1] = False
        elif ev['k'] == 'COND' and not ev['ans']:
            if ev['uid'] in lastans:
                lastans[ev['uid']][1] = False
    keys = NONTRIVIAL.get(prop) or NONTRIVIAL['C01']
    nontrivial = any(probes.get(k) for k in keys)
    return {
        'violations': vs, 'probes': probes, 'nontrivial': nontrivial,
        'shape': shape_of(run.log), 'events': len(run.log),
        'sim_seconds': (stats.get('final_T', 0) or 0) - tval(case['opts'].get('t0', 0), case['opts']['unit']),
        'faults': fault_counts(case, stats), 'executions': 1,
        'digest': run.digest,
    }
