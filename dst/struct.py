"""Structural profile (C09, C10, C11; C07/C12 under structural change).

Compartments ("cells") live in two glob stores, `agents` and `pool`.  Actor
parties (processes or steps) add, delete, generate, divide and move cells as a
function of what they currently see; cells contain scripted processes and
steps whose updates are in flight when structure changes.  After every
applied update the real hierarchy is compared with a reference hierarchy."""

import copy

from dst.rng import Rng, derive
from dst import harness, kernel
from dst.kernel import V, tval
from dst.rec import REC, HarnessError
from dst.wmodel import values_equal, UPDATERS, apply_leaf

PROFILE = 'struct'
UNIT = [1, 8]
STORES = ('agents', 'pool')


# ---------------------------------------------------------------------------
# dividers registered for the profile (user functions)
# ---------------------------------------------------------------------------

def div_ratio(state):
    third = state // 3
    return [third, state - third]


def div_topo(state, state_dict=None, **kw):
    sd = kw.get('state') if state_dict is None else state_dict
    half = state // 2
    k = (sd or {}).get('k', 0) or 0
    if k >= 0:
        return [half, state - half]
    return [state - half, half]


def _topocfg_divider(value, state=None, config=None):
    """A divider declared with both `topology` and `config`: the first daughter
    gets the configured amount w, the second the variable k names (the mother's n)."""
    w = (config or {}).get('w', 0)
    return [w, (state or {}).get('k', 0)]


def div_branch(state):
    """Branch-level divider: the first daughter keeps g1, the second keeps g2."""
    return [{'g1': state['g1'], 'g2': 0}, {'g1': 0, 'g2': state['g2']}]


def up_branch_acc(cur, u):
    out = dict(cur)
    for k, v in u.items():
        out[k] = out[k] + v
    return out


UPDATERS['branch_acc'] = up_branch_acc


def register():
    from vivarium.core.registry import divider_registry
    if divider_registry.access('verif_branch') is None:
        divider_registry.register('verif_branch', div_branch)
    if divider_registry.access('verif_ratio') is None:
        divider_registry.register('verif_ratio', div_ratio)

        def topo(state, state_=None, **kw):
            return div_topo(state, kw.get('state', state_))
        divider_registry.register('verif_topo', _topo_divider)
    if divider_registry.access('verif_topocfg') is None:
        divider_registry.register('verif_topocfg', _topocfg_divider)


def _topo_divider(value, state=None):
    return div_topo(value, state)


# ---------------------------------------------------------------------------
# generation
# ---------------------------------------------------------------------------

VAR_MENU = {
    'n':   {'default': 10, 'divider': 'split'},
    'f':   {'default': 2.5, 'divider': 'split'},
    'tag': {'default': 7, 'divider': 'set', 'updater': 'set'},
    'z':   {'default': 5, 'divider': 'zero'},
    'b':   {'default': 8, 'divider': 'binomial'},
    'cfg': {'default': 3, 'divider': {'divider': 'set_value', 'config': {'value': 42}}, 'updater': 'set'},
    'sd':  {'default': {'k1': 1, 'k2': 2, 'k3': 3}, 'divider': 'split_dict', 'updater': 'set'},
    'r':   {'default': 9, 'divider': 'verif_ratio'},
    'tp':  {'default': 12, 'divider': {'divider': 'verif_topo', 'topology': {'k': ['..', 'n']}}},
    'd':   {'default': {'k0': {'x': 1}}, 'divider': 'set', 'updater': 'dict_value'},
    'lst': {'default': [1, 2], 'divider': 'set'},
    'q':   {'default': {'__q__': [8.0, 'mg']}, 'divider': 'split'},   # a quantity: exact halves
    'grp': {'default': {'g1': 4, 'g2': 6}, 'divider': 'verif_branch', 'branch': True, 'updater': 'branch_acc'},
    'nd':  {'default': 3},                      # no divider declared: the default (set)
    't':   {'default': 0, 'divider': 'set'},    # written by the tally step
}


# variables that hold None (their declared default) when a cell divides; their
# dividers do not look at the value (added through a stream of their own)
# a divider declared with `topology` and `config` together (own stream as well)
TOPOCFG_VAR = {'tc': {'default': 1, 'divider': {'divider': 'verif_topocfg', 'topology': {'k': ['..', 'n']},
                                              'config': {'w': 37}}, 'updater': 'set'}}
NONE_VARS = {
    'cn': {'default': None, 'divider': {'divider': 'set_value', 'config': {'value': 42}}, 'updater': 'set'},
    'zn': {'default': None, 'divider': 'zero', 'updater': 'set'},
}


def _state_for(r, cellvars, p=50, extreme=False):
    st = {}
    for v, a in cellvars.items():
        if v in ('t', 'u', 'd', 'sd', 'lst', 'grp', 'tc') or v in NONE_VARS:
            continue
        if r.chance(p):
            if v == 'q':
                st[v] = {'__q__': [r.rint(0, 64) / 4, r.pick(['mg', 'mg', 'g'])]}
            elif v == 'f':
                st[v] = r.rint(0, 64) / 8
            elif extreme and v in ('n', 'r') and r.chance(50):
                # large and negative integers (conservation must be exact)
                st[v] = r.pick([(1 << 60) + r.rint(0, 9), -r.rint(1, 41), (1 << 53) + 1 + 2 * r.rint(0, 9)])
            else:
                st[v] = r.rint(0, 40)
    return st


def gen_case(seed):
    r = Rng(seed)
    swarm = {
        'add': r.chance(70), 'del': r.chance(60), 'gen': r.chance(60), 'div': r.chance(60),
        'move': r.chance(45), 'combo': r.chance(30), 'illegal': r.chance(8),
        'delpath': r.chance(10), 'steps': r.chance(50), 'stepactor': r.chance(30),
        'viewer': r.chance(70), 'quiet': r.chance(25), 'explicit': r.chance(50),
        'two_actors': r.chance(30), 'moveupdate': r.chance(40),
        'tokens': r.chance(35), 'stepviewer': r.chance(40), 'extreme': r.chance(20),
        'replace': r.chance(8), 'inplace': r.chance(8),
    }
    # (own stream: the cases of earlier seeds keep their shape)
    del_party = Rng(derive(seed, 'del_party')).chance(25)
    gen_empty = Rng(derive(seed, 'gen_empty')).chance(25)
    # a cell moved away and a new one generated under its key, in ONE update dictionary
    move_gen = Rng(derive(seed, 'move_gen')).chance(15)
    names = ['n'] + r.sample([v for v in VAR_MENU if v not in ('n', 't')], r.rint(1, 5))
    if swarm['steps']:
        names.append('t')
    cellvars = {v: copy.deepcopy(VAR_MENU[v]) for v in names}
    rn = Rng(derive(seed, 'none_vars'))
    if rn.chance(20):
        for v in rn.sample(sorted(NONE_VARS), rn.rint(1, 2)):
            cellvars[v] = copy.deepcopy(NONE_VARS[v])
    if Rng(derive(seed, 'topocfg')).chance(20):
        cellvars['tc'] = copy.deepcopy(TOPOCFG_VAR['tc'])
    tsmax = r.pick([4, 8, 16])

    def proc_spec(name):
        sp = {'name': name, 'declares': ['n'] + [v for v in names if v in ('f', 'b', 'r', 'tp', 'z', 'q', 'grp') and r.chance(50)]}
        m = r.below(3)
        if m == 0:
            sp['ts'] = {'mode': 'const', 'vals': [r.rint(1, tsmax)], 'unit': UNIT}
        elif m == 1:
            sp['ts'] = {'mode': 'poll', 'vals': [r.rint(1, tsmax) for _ in range(3)], 'unit': UNIT}
        else:
            sp['ts'] = {'mode': 'interval', 'vals': [r.rint(1, tsmax) for _ in range(3)], 'unit': UNIT}
        if swarm['quiet'] and r.chance(40):
            sp['cond'] = {'mode': 'poll', 'vals': [r.below(2) for _ in range(5)]}
        sp['writes'] = []
        for v in sp['declares']:
            if v == 'grp':
                sp['writes'].append([v, [{r.pick(['g1', 'g2']): r.rint(1, 9)} for _ in range(3)]])
            elif v == 'q':
                sp['writes'].append([v, [{'__q__': [r.rint(1, 16) / 4, 'mg']} for _ in range(3)]])
            elif v == 'f':
                sp['writes'].append([v, [r.rint(1, 40) / 8 for _ in range(3)]])
            elif v in ('n', 'b', 'r', 'tp', 'z') and (v == 'n' or r.chance(60)):
                sp['writes'].append([v, [r.rint(1, 50) for _ in range(3)]])
        return sp

    templates = {}
    for tname in ('cellA', 'cellB'):
        sfx = tname[-1]
        t = {'procs': [proc_spec('grow' + sfx)], 'steps': []}
        if r.chance(25):
            t['procs'].append(proc_spec('more' + sfx))
        if swarm['steps'] and r.chance(70):
            t['steps'].append({'name': 'tally' + sfx, 'out': 't', 'offset': r.rint(1, 5),
                               'where': r.pick(['steps', 'steps', 'processes']),
                               'flow': r.pick([None, None, []])})
            if r.chance(12):
                t['procs'] = []      # a compartment that holds steps only
            ra = Rng(derive(seed, 'audit', tname))
            if t['steps'][0]['flow'] == [] and ra.chance(50):
                # a second step that depends on the first one and reads what it wrote
                # (own stream; listed first half of the time: listing order is not flow order)
                audit = {'name': 'audit' + sfx, 'out': 'u', 'src': 't', 'offset': ra.rint(1, 5),
                         'where': t['steps'][0]['where'], 'flow': [['tally' + sfx]]}
                t['steps'] = [audit] + t['steps'] if ra.chance(50) else t['steps'] + [audit]
                cellvars['u'] = {'default': 0, 'divider': 'set'}
        if t['procs'] and r.chance(20):
            t['nest'] = True         # processes in a sub-compartment of the cell
            if t['steps'] and r.chance(60):
                t['nest_steps'] = True   # ... together with the cell's step
        templates[tname] = t
    init_cells = {'agents': [], 'pool': []}
    for i in range(r.rint(1, 3)):
        init_cells['agents'].append(['a%d' % i, r.pick(['cellA', 'cellB']),
                                     _state_for(r, cellvars, extreme=swarm['extreme'])])
    for i in range(r.rint(0, 2)):
        init_cells['pool'].append(['q%d' % i, r.pick(['cellA', 'cellB']), _state_for(r, cellvars)])

    def op(rr):
        menu = [['noop']]
        if swarm['add']:
            menu += [['add', _state_for(rr, cellvars)]] * 2
        if swarm['del']:
            menu += [['del', rr.below(4)]] * 2 + [['multi_del', rr.below(4), rr.below(4)]]
        if swarm['delpath']:
            menu += [['delpath', rr.below(4)]]
        if del_party:
            menu += [['del_party', rr.below(4), rr.below(6)]] * 2
        if swarm['gen']:
            menu += [['gen', rr.pick(['cellA', 'cellB']), _state_for(rr, cellvars)]] * 2
        if gen_empty:
            menu += [['gen_empty', _state_for(rr, cellvars)]]
        if swarm['div']:
            mode = 'explicit' if swarm['explicit'] and rr.chance(60) else 'copy'
            st1 = _state_for(rr, cellvars, 20) if rr.chance(40) else {}
            st2 = _state_for(rr, cellvars, 20) if rr.chance(40) else {}
            if 'd' in cellvars and rr.chance(30):
                # an explicit dictionary-valued state for one daughter only
                (st1 if rr.chance(50) else st2)['d'] = {'k%d' % rr.rint(1, 9): {'x': rr.rint(2, 9)}}
            menu += [['div', rr.below(4), mode, rr.pick(['cellA', 'cellB']), st1, st2]] * 3
        if swarm['move']:
            src, dst = rr.pick([('agents', 'pool'), ('pool', 'agents')])
            if swarm['moveupdate'] and rr.chance(40):
                menu += [['move_up', rr.below(4), src, dst, rr.rint(1, 9)]]
            else:
                menu += [['move', rr.below(4), src, dst]] * 2
        if swarm['combo']:
            menu += [['add_del', _state_for(rr, cellvars), rr.below(4)]]
        if move_gen:
            src_, dst_ = rr.pick([('agents', 'pool'), ('pool', 'agents')])
            menu += [['move_gen', rr.below(4), src_, dst_, rr.pick(['cellA', 'cellB']),
                      _state_for(rr, cellvars)]] * 2
        if swarm['illegal']:
            menu += [['add_existing', rr.below(4)], ['add_twice', _state_for(rr, cellvars)]]
        menu += [['write', rr.below(4), 'n', rr.rint(1, 9)]]
        if swarm['combo'] and swarm['add']:
            menu += [['add_write', _state_for(rr, cellvars), rr.below(4), rr.rint(1, 9)]]
        if swarm['tokens'] and swarm['illegal']:
            menu += [['add_leaf_existing', rr.below(4), rr.pick([0, 3])]]
        if swarm['tokens']:
            menu += [['add_leaf', rr.pick([0, 0, False, 5, 12])]] * 2 + \
                    [['del_leaf', rr.below(4)], ['write_leaf', rr.below(4), rr.rint(1, 9)]]
        return rr.pick(menu)

    def safe_op(rr):
        # a second actor only adds, generates or writes: two parties never
        # issue conflicting operations on one cell in the same batch
        for _ in range(20):
            o = op(rr)
            if o[0] in ('noop', 'add', 'gen', 'gen_empty', 'write', 'add_leaf'):
                return o
        return ['noop']

    actors = []
    for i in range(2 if swarm['two_actors'] else 1):
        kind = 'step' if (swarm['stepactor'] and i == 0 and r.chance(60)) else 'proc'
        a = {'name': 'actor%d' % i, 'kind': kind,
             'ops': [(op if i == 0 else safe_op)(r) for _ in range(r.rint(2, 8))],
             'ts': {'mode': 'const', 'vals': [r.rint(1, tsmax)], 'unit': UNIT}}
        if kind == 'step':
            a['flow'] = r.pick([None, []])
        actors.append(a)
    if swarm['replace'] and init_cells['agents']:
        # two actors with one timestep: the first deletes a cell, the second generates a cell
        # under the same key in the same batch (the cell is replaced within one instant)
        key = init_cells['agents'][0][0]
        ts_ = {'mode': 'const', 'vals': [r.rint(1, tsmax)], 'unit': UNIT}
        k_ = r.rint(0, 3)
        a0 = {'name': 'actor0', 'kind': 'proc', 'ts': dict(ts_),
              'ops': [['noop']] * k_ + [['del_named', key]] + [['noop']] * 3}
        a1 = {'name': 'actor1', 'kind': 'proc', 'ts': dict(ts_),
              'ops': [['noop']] * k_ + [['gen_named', key, r.pick(['cellA', 'cellB']), _state_for(r, cellvars)]]
              + [['noop']] * 3}
        actors = [a0, a1]
    if swarm['inplace'] and not swarm['replace'] and init_cells['agents']:
        # a _generate under the key of an existing cell: the cell's process is replaced in place
        key, tname_, _ = init_cells['agents'][0]
        if not templates[tname_].get('nest'):
            k_ = r.rint(0, 3)
            actors[0]['ops'] = list(actors[0]['ops'][:k_]) + [['gen_named', key, tname_, _state_for(r, cellvars, 30)]] \
                + list(actors[0]['ops'][k_:])
            actors[0]['kind'] = 'proc'
            actors[0].pop('flow', None)
    viewers = []
    if swarm['viewer']:
        for i in range(r.rint(1, 2)):
            vkind = 'proc'
            vflow = None
            if swarm['stepviewer'] and actors[0]['kind'] == 'step' and r.chance(70):
                vkind = 'step'
                vflow = [['actor0']] if actors[0].get('flow') is not None else None
            viewers.append({'name': 'viewer%d' % i, 'store': r.pick(['agents', 'agents', 'pool']),
                            'kind': vkind, 'flow': vflow,
                            'sees': ['n'] + [v for v in names if v != 'n' and r.chance(40)],
                            'ts': {'mode': 'const', 'vals': [r.rint(1, tsmax)], 'unit': UNIT}})
    ops = []
    for i in range(r.rint(1, 4)):
        u = r.rint(1, 24)
        ops.append(r.pick([['run_for', u, False], ['run_for', u, True], ['update', u], ['update', u]]))
    tokens = None
    if swarm['tokens']:
        tokens = {'t%d' % i: r.pick([0, 3, 7, False]) for i in range(r.rint(0, 2))}
    return {
        'profile': PROFILE, 'seed': seed,
        'opts': {'precision': None, 'unit': UNIT, 't0': 0},
        'tokens': tokens,
        'cellvars': cellvars, 'templates': templates, 'init_cells': init_cells,
        'actors': actors, 'viewers': viewers, 'ops': ops,
        'swarm': sorted(k for k, v in swarm.items() if v),
    }


# ---------------------------------------------------------------------------
# build / execute
# ---------------------------------------------------------------------------

def build(case, parallel=()):
    from dst.parties import AProc, VProc, build_cell, ScriptedMixin
    from vivarium.core.process import Step
    processes, steps, flow, topology, init = {}, {}, {}, {}, {}
    cellvars = case['cellvars']
    for store in STORES:
        for key, tname, state in case['init_cells'].get(store, []):
            p, s, f, t = build_cell(case['templates'][tname], cellvars, 2,
                                    parallel=('cells' in parallel))
            if p:
                harness.assoc(processes, [store, key], p)
            if s:
                harness.assoc(steps, [store, key], s)
            if f:
                harness.assoc(flow, [store, key], f)
            harness.assoc(topology, [store, key], t)
            harness.assoc(init, [store, key, 'vars'], _dec(state))
    for a in case['actors']:
        spec = dict(a)
        spec['cellvars'] = cellvars
        spec['templates'] = case['templates']
        spec['thin'] = (a is case['actors'][0])
        spec['tokens'] = case.get('tokens') is not None
        spec['parallel_cells'] = ('cells' in parallel)
        params = {'spec': spec, 'name': a['name']}
        if a['kind'] == 'step':
            obj = _astep_class()(params)
            steps[a['name']] = obj
            if a.get('flow') is not None:
                flow[a['name']] = [tuple(d) for d in a['flow']]
        else:
            obj = AProc(params)
            processes[a['name']] = obj
        topology[a['name']] = {'agents': ('agents',), 'pool': ('pool',), 'probe': ('verif_probe',)}
        if case.get('tokens') is not None:
            topology[a['name']]['tokens'] = ('tokens',)
    for v in case.get('viewers', []):
        spec = dict(v)
        spec['cellvars'] = cellvars
        if v.get('kind') == 'step':
            from dst.parties import VStep
            steps[v['name']] = VStep({'spec': spec, 'name': v['name']})
            if v.get('flow') is not None:
                flow[v['name']] = [tuple(d) for d in v['flow']]
        else:
            processes[v['name']] = VProc({'spec': spec, 'name': v['name']})
        topology[v['name']] = {'look': (v['store'],), 'probe': ('verif_probe',)}
    if case.get('tokens') is not None:
        init['tokens'] = copy.deepcopy(case['tokens'])
    return processes, steps, flow, topology, init


_ASTEP = None


def _astep_class():
    global _ASTEP
    if _ASTEP is None:
        from dst import parties
        _ASTEP = parties.AStep
    return _ASTEP


def budget_for(case, units):
    return 60000 * (units + 30)


def published(eng):
    """Name-marker trees of what the engine publishes and of what the store
    holds (C10)."""
    from vivarium.core.process import Process

    def mark(x):
        if isinstance(x, dict):
            return {k: mark(v) for k, v in x.items()}
        if isinstance(x, Process):
            return '<P:%s>' % getattr(x, 'name', '?')
        if isinstance(x, (list, tuple)):
            return [mark(v) for v in x]
        return x
    out = {}
    for key, attr, getter in (('processes', 'processes', 'get_processes'), ('steps', 'steps', 'get_steps'),
                              ('flow', 'flow', 'get_flow'), ('topology', 'topology', 'get_topology')):
        try:
            out['pub_' + key] = mark(getattr(eng, attr))
        except Exception as e:
            out['pub_' + key] = 'ERR %r' % (e,)
        try:
            out['store_' + key] = mark(getattr(eng.state, getter)() or {})
        except Exception as e:
            out['store_' + key] = 'ERR %r' % (e,)
    # which object is published under each path, which one the hierarchy holds there
    def idmap(tree, path=()):
        d = {}
        if isinstance(tree, dict):
            for k, v in tree.items():
                d.update(idmap(v, path + (k,)))
        elif isinstance(tree, Process):
            d['/'.join(str(x) for x in path)] = id(tree)
        return d
    try:
        hid = dict(idmap(eng.state.get_processes() or {}), **idmap(eng.state.get_steps() or {}))
        out['stale_objects'] = sorted(
            (kind, p_) for kind, attr in (('processes', 'processes'), ('steps', 'steps'))
            for p_, i_ in idmap(getattr(eng, attr)).items() if p_ in hid and hid[p_] != i_)
    except Exception:
        out['stale_objects'] = None
    # every branch node of the hierarchy (for: no published compartment without a store)
    nodes = []

    def walk(store, path):
        nodes.append(list(path))
        for k, sub in (store.inner or {}).items():
            if sub.inner:
                walk(sub, path + (k,))
            else:
                nodes.append(list(path + (k,)))
    try:
        walk(eng.state, ())
    except Exception:
        nodes = None
    out['nodes'] = nodes
    return out


def execute(case, parallel=(), restart_after=None, sim_seed=None, tail_ops=()):
    opts = case['opts']
    unit = opts['unit']
    run = harness.Run()
    harness.begin_run(0.0, seed=case.get('seed', 0), simmp_seed=sim_seed)
    register()
    from dst.wiring import register_updaters
    register_updaters()
    REC.extra['locate'] = True
    REC.extra['ids'] = True
    REC.extra['cond_snap'] = True
    REC.extra['snap_cache'] = True
    try:
        processes, steps, flow, topology, init = build(case, parallel)
        from vivarium.core.composer import Composite
        comp = Composite({'processes': processes, 'steps': steps, 'flow': flow,
                          'topology': topology, 'state': init})
        eng = harness.make_engine(run, budget_for(case, 1), composite=comp)
        run.extra['published'] = []
        if eng is not None:
            run.extra['published'].append((-1, published(eng), _alias(comp, eng)))
            for i, op in enumerate(case['ops']):
                ok = harness.drive(run, eng, [op], unit,
                                   lambda o: budget_for(case, o[1] if len(o) > 1 else 1), first_index=i)
                if not ok:
                    break
                run.extra['published'].append((i, published(eng), _alias(comp, eng)))
                if restart_after is not None and i == restart_after:
                    eng = _restart(run, eng, case)
                    if eng is None:
                        break
            if run.exc is None and eng is not None:
                run.extra['final_state'] = REC.snapshot()
                if tail_ops:
                    harness.drive(run, eng, [list(o) for o in tail_ops], unit, lambda o: 2000000,
                                  first_index=len(case['ops']))
                    if run.extra.get('drop'):
                        eng = None
                        comp = None
                        processes = steps = None
                        harness.drop_engine(run)
    finally:
        harness.end_run()
    return harness.finish(run)


def _alias(comp, eng):
    try:
        return bool(comp['processes'] is eng.processes and comp['topology'] is eng.topology
                    and comp['steps'] is eng.steps and comp['flow'] is eng.flow)
    except Exception:
        return False


def _strip_processes(v):
    from vivarium.core.process import Process
    if isinstance(v, dict):
        out = {}
        for k, x in v.items():
            if isinstance(x, tuple) and len(x) == 2 and isinstance(x[0], Process):
                continue
            if isinstance(x, Process):
                continue
            out[k] = _strip_processes(x)
        return out
    return copy.deepcopy(v)


def _restart(run, eng, case):
    """F6: discard the engine at a quiescent point and build a new one from
    the published composite and the current state."""
    T = eng.global_time
    state = _strip_processes(eng.state.get_value())
    state.pop('verif_probe', None)
    kw = dict(processes=eng.processes, steps=eng.steps, flow=eng.flow, topology=eng.topology,
              initial_state=state, initial_global_time=T)
    REC.ev('RESTART', T=T)
    REC.extra.pop('loc_cache', None)
    new = harness.make_engine(run, budget_for(case, 1), **kw)
    return new


# ---------------------------------------------------------------------------
# reference hierarchy
# ---------------------------------------------------------------------------

class Inconclusive(Exception):
    """The history left the domain the properties speak about."""


class Pending:
    """A daughter's share of a divided variable: decided by a (possibly
    random) divider, checked against its law at the next snapshot."""

    def __init__(self, group):
        self.group = group

    def __repr__(self):
        return '<pending>'


class Cell:
    def __init__(self, template, vars_, parties):
        self.template = template
        self.vars = vars_
        self.parties = parties      # name -> {'kind': 'proc'|'step', 'flow': None|list, 'out':, 'offset':}


def parties_of(template):
    """Parties of a cell, keyed by their path below the cell."""
    out = {}
    for sp in template.get('procs', []):
        key = ('sub', sp['name']) if template.get('nest') else (sp['name'],)
        out[key] = {'kind': 'proc'}
    for sp in template.get('steps', []):
        key = ('sub', sp['name']) if (template.get('nest') and template.get('nest_steps')) else (sp['name'],)
        out[key] = {'kind': 'step', 'flow': sp.get('flow'), 'where': sp.get('where', 'steps')}
    return out


def _names(tree, path=()):
    """Paths of the process markers in a (real or model) cell node."""
    out = []
    if isinstance(tree, dict):
        for k, v in tree.items():
            if k == 'vars' and not path:
                continue
            if isinstance(v, dict):
                out += _names(v, path + (k,))
            else:
                out.append(path + (k,))
    return sorted(out)


def _dec(v):
    from dst.parties import decode_value
    return decode_value(copy.deepcopy(v))


class HModel:
    def __init__(self, case):
        self.case = case
        self.cellvars = case['cellvars']
        self.stores = {s: {} for s in STORES}
        self.groups = []      # unresolved division groups
        self.known_hits = {}
        self.moved, self.created, self.deleted, self.divided, self.tuple_deletes = [], [], [], [], []
        self.replaced = []
        self.party_deleted = []
        self.tokens = copy.deepcopy(case.get('tokens')) if case.get('tokens') is not None else None
        for s in STORES:
            for key, tname, state in case['init_cells'].get(s, []):
                self.stores[s][key] = self.new_cell(tname, state)

    def defaults(self):
        return {v: _dec(a['default']) for v, a in self.cellvars.items()}

    def new_cell(self, tname, state):
        vars_ = self.defaults()
        for k, v in (state or {}).items():
            if k in vars_:
                vars_[k] = _dec(v)
        parties = parties_of(self.case['templates'][tname]) if tname else {}
        return Cell(tname, vars_, parties)

    def find(self, path):
        """Cell at hierarchy path (store, key, ...)."""
        if len(path) >= 2 and path[0] in self.stores:
            return self.stores[path[0]].get(path[1])
        return None

    def live_parties(self):
        out = {}
        for s in STORES:
            for key, cell in self.stores[s].items():
                for name, p in cell.parties.items():
                    out[(s, key) + tuple(name)] = p
        for a in self.case['actors']:
            out[(a['name'],)] = {'kind': a['kind'], 'flow': a.get('flow')}
        for v in self.case.get('viewers', []):
            out[(v['name'],)] = {'kind': v.get('kind', 'proc'), 'flow': v.get('flow')}
        return out

    # ---- updates ---------------------------------------------------------
    def apply_value(self, cell, var, u):
        a = self.cellvars.get(var)
        if a is None or var not in cell.vars:
            return
        cur = cell.vars[var]
        if isinstance(cur, Pending):
            raise HarnessError('update to an unresolved divided variable')
        dflt = _dec(a['default'])
        cell.vars[var] = apply_leaf(cur, _dec(u), a.get('updater'), dflt,
                                    dflt.units if hasattr(dflt, 'magnitude') else None)

    def apply_actor_update(self, update, footprint):
        """Apply the structural/value update of an actor (port-relative).
        Returns 'illegal-add' if the update adds an existing key."""
        result = None
        tk = update.get('tokens')
        if isinstance(tk, dict) and self.tokens is not None:
            for added in tk.get('_add', []) or []:
                if added['key'] in self.tokens:
                    return 'illegal-add'
                # the given state, whatever it is (0 and False are states too)
                self.tokens[added['key']] = added['state']
                footprint.add(('tokens', added['key']))
            for key, val in tk.items():
                if not key.startswith('_') and key in self.tokens:
                    self.tokens[key] = self.tokens[key] + val
            for key in tk.get('_delete', []) or []:
                if key in self.tokens:
                    del self.tokens[key]
                    footprint.add(('tokens', key))
        for store in STORES:
            u = update.get(store)
            if not isinstance(u, dict):
                continue
            here = self.stores[store]
            for added in u.get('_add', []) or []:
                key = added['key']
                if key in here:
                    return 'illegal-add'
                here[key] = self.new_cell(None, (added.get('state') or {}).get('vars'))
                footprint.add((store, key))
                self.created.append((store, key))
            for mv in u.get('_move', []) or []:
                key = mv['source'][0] if isinstance(mv['source'], (list, tuple)) else mv['source']
                dst = mv['target'][0] if isinstance(mv['target'], (list, tuple)) else mv['target']
                if key not in here:
                    continue
                if key in self.stores[dst]:
                    # moving a cell onto a key that exists in the target: the statement does
                    # not say what the result is; the run is not judged beyond this point
                    raise Inconclusive('move onto an existing key')
                cell = here[key]
                if 'update' in mv:
                    for var, val in (mv['update'].get('vars') or {}).items():
                        self.apply_value(cell, var, val)
                del here[key]
                self.stores[dst][key] = cell
                footprint.add((store, key))
                footprint.add((dst, key))
                self.moved.append(((store, key), (dst, key)))
            for g in u.get('_generate', []) or []:
                key = g['key']
                tname = self.template_of(g)
                if key in here:
                    # generated into an existing compartment: the given processes replace the
                    # ones of the same name, the given state overrides, the rest stays
                    cell = here[key]
                    for kk, vv in ((g.get('initial_state') or {}).get('vars') or {}).items():
                        if kk in cell.vars:
                            cell.vars[kk] = _dec(vv)
                    if tname:
                        cell.parties.update(parties_of(self.case['templates'][tname]))
                    cell.template = cell.template or tname
                    self.replaced.append((store, key))
                else:
                    here[key] = self.new_cell(tname, (g.get('initial_state') or {}).get('vars'))
                    self.created.append((store, key))
                footprint.add((store, key))
            dv = u.get('_divide')
            if dv:
                mkey = dv['mother']
                if mkey in here:
                    mother = here[mkey]
                    group = {'mother': copy.deepcopy(mother.vars), 'daughters': [], 'store': store,
                             'explicit': []}
                    for d in dv['daughters']:
                        if 'processes' in d or 'steps' in d:
                            tname = self.template_of(d)
                            parties = parties_of(self.case['templates'][tname])
                        else:
                            tname = mother.template
                            parties = copy.deepcopy(mother.parties)
                        vars_ = {v: Pending(group) for v in self.cellvars}
                        cell = Cell(tname, vars_, parties)
                        here[d['key']] = cell
                        group['daughters'].append(d['key'])
                        group['explicit'].append(_dec((d.get('initial_state') or {}).get('vars') or {}))
                        footprint.add((store, d['key']))
                        self.created.append((store, d['key']))
                    del here[mkey]
                    footprint.add((store, mkey))
                    self.groups.append(group)
                    self.divided.append((store, mkey))
            for key, val in u.items():
                if key.startswith('_') or key not in here or not isinstance(val, dict):
                    continue
                for var, x in (val.get('vars') or {}).items():
                    self.apply_value(here[key], var, x)
                for name in val.get('_delete', []) or []:
                    # a party (or the sub-compartment of the nested ones) leaves the cell
                    cell = here[key]
                    gone = [pk for pk in cell.parties if pk[0] == name]
                    for pk in gone:
                        del cell.parties[pk]
                    if gone:
                        self.party_deleted.append((store, key, name))
            for entry in u.get('_delete', []) or []:
                if isinstance(entry, (list, tuple)):
                    # known finding C09-delete-tuple-path: the documented path form
                    # deletes nothing.  Bug-compatible by default (the run is counted
                    # and goes on under full checking); `strict_known` replays the
                    # documented semantics (used for the committed example).
                    self.tuple_deletes.append((store,) + tuple(entry))
                    if not self.case['opts'].get('strict_known'):
                        self.known_hits['C09.delete.not-removed'] = \
                            self.known_hits.get('C09.delete.not-removed', 0) + 1
                        continue
                    entry = entry[0] if len(entry) == 1 else entry
                if entry in here:
                    del here[entry]
                    footprint.add((store, entry))
                    self.deleted.append((store, entry))
        return result

    def template_of(self, g):
        """Which template a generated/explicit compartment was built from:
        recognised by the names and kinds of its parties."""
        def flat(d):
            out = []
            for k, v in (d or {}).items():
                if isinstance(v, dict):
                    out += flat(v)
                else:
                    out.append(k)
            return out
        names = sorted(flat(g.get('processes')) + flat(g.get('steps')))
        if not names:
            return None       # a compartment of state only
        for tname, t in self.case['templates'].items():
            tn = sorted([p['name'] for p in t.get('procs', [])] + [s['name'] for s in t.get('steps', [])])
            if tn == names:
                pin = sorted(flat(g.get('processes')))
                tin = sorted([p['name'] for p in t.get('procs', [])] +
                             [s['name'] for s in t.get('steps', []) if s.get('where') == 'processes'])
                nested_steps = 'sub' in (g.get('steps') or {}) or any(
                    s_['name'] in ((g.get('processes') or {}).get('sub') or {}) for s_ in t.get('steps', []))
                if pin == tin and self._flow_matches(g, t) and \
                        bool(t.get('nest')) == ('sub' in (g.get('processes') or {}) or nested_steps) and \
                        bool(t.get('nest') and t.get('nest_steps') and t.get('steps')) == nested_steps:
                    return tname
        raise HarnessError('unknown compartment content %r' % (names,))

    def _flow_matches(self, g, t):
        f = g.get('flow') or {}
        if isinstance(f.get('sub'), dict):
            f = dict(f, **f['sub'])
        for s in t.get('steps', []):
            if (s.get('flow') is None) != (s['name'] not in f):
                return False
        return True

    # ---- state -------------------------------------------------------------
    def tree(self):
        out = {}
        for s in STORES:
            out[s] = {}
            for key, cell in self.stores[s].items():
                node = {'vars': dict(cell.vars)}
                for name in cell.parties:
                    d = node
                    for seg in name[:-1]:
                        d = d.setdefault(seg, {})
                    d[name[-1]] = ('<P>', name[-1])
                out[s][key] = node
        return out

    def resolve_pending(self, snap):
        """Check the divider laws of unresolved divisions against a snapshot
        and adopt the observed shares.  Returns a violation or None."""
        keep = []
        for g in self.groups:
            here = self.stores[g['store']]
            ds = g['daughters']
            # daughters may have moved
            cells = []
            for d in ds:
                c = None
                for s in STORES:
                    if d in self.stores[s] and any(isinstance(x, Pending) and x.group is g
                                                   for x in self.stores[s][d].vars.values()):
                        c = (s, self.stores[s][d])
                cells.append(c)
            if any(c is None for c in cells):
                # a daughter vanished before any snapshot: nothing to check
                for c in cells:
                    if c is not None:
                        for v, x in list(c[1].vars.items()):
                            if isinstance(x, Pending):
                                c[1].vars[v] = None
                continue
            obs = []
            for (s, cell), d in zip(cells, ds):
                node = ((snap.get(s) or {}).get(d) or {}).get('vars')
                obs.append(node)
            if any(o is None for o in obs):
                return V('C09', 'C09.divide.daughter-missing', 'plain',
                         'daughters %r of a division are not in the hierarchy' % (ds,))
            for v, a in self.cellvars.items():
                m = g['mother'].get(v)
                shares = [o.get(v, '<absent>') for o in obs]
                err = law(v, a, m, shares, g['explicit'], self.cellvars, g['mother'])
                if err:
                    return V('C11', 'C11.divider-law', err[0],
                             'variable %s (divider %r) of mother %r -> daughters %r: %s' % (
                                 v, a.get('divider'), m, shares, err[1]))
                for (s, cell), sh in zip(cells, shares):
                    cell.vars[v] = copy.deepcopy(sh)
        self.groups = keep
        return None


def _qty_close(a, b):
    """Same physical amount (a share may be expressed in the unit of the
    mother's value or of an explicit state)."""
    try:
        d = (a - b).to(b.units).magnitude
        return abs(d) <= 1e-9 * max(1.0, abs(b.magnitude))
    except Exception:
        return False


def law(v, a, m, shares, explicit, cellvars, mother_vars):
    """Law of the declared divider; None if the shares are acceptable."""
    d = a.get('divider')
    if d is None:
        d = 'set'
    exp = [None, None]
    for i in (0, 1):
        if v in explicit[i]:
            exp[i] = explicit[i][v]
    if any(s == '<absent>' for s in shares):
        return ('missing', 'a daughter lacks the variable')
    # explicit initial state overrides the divided value
    chk = [None, None]
    if isinstance(d, dict):
        name = d['divider']
    else:
        name = d
    s0, s1 = shares
    if name == 'set':
        want = [m, m]
    elif name == 'zero':
        want = [0, 0]
    elif name == 'set_value':
        want = [d['config']['value']] * 2
    elif name == 'verif_branch':
        want = div_branch(m)
    elif name == 'verif_ratio':
        want = div_ratio(m)
    elif name == 'verif_topo':
        k = mother_vars.get('n')
        want = div_topo(m, {'k': k})
    elif name == 'verif_topocfg':
        want = _topocfg_divider(m, {'k': mother_vars.get('n')}, d['config'])
    elif name == 'split':
        if hasattr(m, 'magnitude'):
            want = [m / 2, m / 2]
            for i in (0, 1):
                w = exp[i] if exp[i] is not None else want[i]
                if not _qty_close(shares[i], w):
                    return ('split' if exp[i] is None else 'explicit-state',
                            'daughter %d holds %r, expected %r' % (i, shares[i], w))
            return None
        if isinstance(m, bool) or not isinstance(m, (int, float)):
            return None
        if isinstance(m, int):
            # exact halves, the remainder to one side: the shares sum to the
            # mother's value and differ by at most one (any sign, any size)
            lo, hi = m // 2, m - m // 2
            cands = [[lo, hi], [hi, lo]]
            for i in (0, 1):
                if exp[i] is not None:
                    if not values_equal(shares[i], exp[i]):
                        return ('explicit-state', 'explicit daughter state %r not applied' % (exp[i],))
            free = [i for i in (0, 1) if exp[i] is None]
            if len(free) == 2:
                if [s0, s1] not in cands:
                    return ('split', 'shares must be %r in some order (sum conserved, differ by at most one)' % (cands[0],))
            elif len(free) == 1:
                if shares[free[0]] not in (lo, hi):
                    return ('split', 'share must be %r or %r' % (lo, hi))
            return None
        want = [m / 2, m / 2]
    elif name == 'binomial':
        for i in (0, 1):
            if exp[i] is not None and not values_equal(shares[i], exp[i]):
                return ('explicit-state', 'explicit daughter state %r not applied' % (exp[i],))
        if exp[0] is None and exp[1] is None:
            if s0 + s1 != m or s0 < 0 or s1 < 0:
                return ('binomial', 'shares must be non-negative and sum to the mother value')
        else:
            for i in (0, 1):
                if exp[i] is None and not (0 <= shares[i] <= m):
                    return ('binomial', 'share out of range')
        return None
    elif name == 'split_dict':
        for i in (0, 1):
            if exp[i] is not None and not values_equal(shares[i], exp[i]):
                return ('explicit-state', 'explicit daughter state not applied')
        if exp[0] is None and exp[1] is None:
            if not (isinstance(s0, dict) and isinstance(s1, dict)):
                return ('split_dict', 'shares are not dictionaries')
            if set(s0) & set(s1) or set(s0) | set(s1) != set(m or {}):
                return ('split_dict', 'key sets do not partition the mother keys')
            for kk in s0:
                if s0[kk] != m[kk]:
                    return ('split_dict', 'value changed')
            for kk in s1:
                if s1[kk] != m[kk]:
                    return ('split_dict', 'value changed')
        return None
    else:
        return None
    for i in (0, 1):
        w = exp[i] if exp[i] is not None else want[i]
        if exp[i] is not None and isinstance(exp[i], dict) and isinstance(want[i], dict):
            # a dictionary-valued explicit state may replace the share or be merged into it
            from dst.wmodel import deep_merge_new
            if values_equal(shares[i], exp[i]) or values_equal(shares[i], deep_merge_new(want[i], exp[i])):
                continue
        if not values_equal(shares[i], w):
            if exp[i] is not None:
                return ('explicit-state', 'daughter %d holds %r, explicit initial state says %r' % (i, shares[i], w))
            return (name, 'daughter %d holds %r, expected %r' % (i, shares[i], w))
    return None


# ---------------------------------------------------------------------------
# oracle
# ---------------------------------------------------------------------------

def _strip(snap):
    if not isinstance(snap, dict):
        return snap
    out = {}
    for k, v in snap.items():
        if k == 'verif_probe':
            continue
        if isinstance(v, tuple) and len(v) == 2 and v[0] == '<P>':
            continue
        out[k] = v
    return out


def _cells_of(snap):
    """{store: {key: {'vars': {...}, name: marker}}} from a snapshot."""
    return {s: (snap.get(s) or {}) for s in STORES}


def check(case, run, stats=None):
    stats = stats if stats is not None else {}
    try:
        return _check(case, run, stats)
    except Inconclusive:
        stats.setdefault('probes', {})['left-the-domain'] = 1
        return []


def _check(case, run, stats):
    probes = stats.setdefault('probes', {})

    def probe(name, n=1):
        probes[name] = probes.get(name, 0) + n

    if run.budget_hit:
        return [V('C03', 'C03.no-termination', 'struct', 'budget exceeded')]
    m = HModel(case)
    cellvars = case['cellvars']
    actor_names = set(a['name'] for a in case['actors'])
    viewers = {v['name']: v for v in case.get('viewers', [])}
    log = run.log
    pending_nu = {}        # (uid, n) -> NU/STEPNU event
    expect_exception = None
    last_ids = None
    footprint = set()
    party_state = {}       # uid -> {'path','last_end','pending','created'}
    dead_uids = set()
    last_struct = 'none'
    model_version = [0]
    batch = {'T': None, 'struct': set(), 'valued': set()}
    sensitive = stats.setdefault('order_sensitive', [])
    faults = stats.setdefault('faults', {})

    last_cmp = [None, None]

    def cmp_state(snap, seq, ids):
        nonlocal last_ids, footprint
        if snap is last_cmp[0] and last_cmp[1] == model_version[0]:
            return None
        last_cmp[0], last_cmp[1] = snap, model_version[0]
        err = m.resolve_pending(snap)
        if err:
            err['seq'] = seq
            return err
        real = _cells_of(snap)
        model = m.tree()
        if m.tokens is not None:
            rt = snap.get('tokens')
            rt = rt if isinstance(rt, dict) else {}
            if set(rt) != set(m.tokens):
                return V('C09', 'C09.cells', 'leaf-children',
                         'store tokens holds %r, expected %r' % (sorted(rt), sorted(m.tokens)), seq)
            for key_, val_ in m.tokens.items():
                if not (values_equal(rt[key_], val_) and type(rt[key_]) == type(val_)):
                    return V('C09', 'C09.value', 'leaf-child',
                             'tokens/%s: real %r, model %r' % (key_, rt[key_], val_), seq)
        for s in STORES:
            rk, mk = set(real[s]), set(model[s])
            if rk != mk:
                extra, missing = sorted(rk - mk), sorted(mk - rk)
                disc, rule = _classify_keys(m, s, extra, missing)
                if rule is None:
                    continue_ok = True
                else:
                    return V('C09', rule, disc,
                             'store %s holds %r, expected %r (extra %r, missing %r)' % (
                                 s, sorted(rk), sorted(mk), extra, missing), seq)
            for key in rk & mk:
                rnode, mnode = real[s][key], model[s][key]
                rvars = rnode.get('vars') if isinstance(rnode, dict) else None
                if rvars is None:
                    return V('C09', 'C09.cell-shape', 'no-vars',
                             '%s/%s has no variables: %r' % (s, key, rnode), seq)
                for var in cellvars:
                    if var not in rvars:
                        return V('C09', 'C09.cell-shape', 'missing-variable',
                                 '%s/%s lacks declared variable %s' % (s, key, var), seq)
                    if not values_equal(rvars[var], mnode['vars'][var]):
                        return V('C09', 'C09.value', _value_disc(m, s, key),
                                 '%s/%s/vars/%s: real %r, model %r' % (s, key, var, rvars[var], mnode['vars'][var]), seq)
                extra_vars = set(rvars) - set(cellvars)
                if extra_vars:
                    return V('C09', 'C09.cell-shape', 'extra-variable',
                             '%s/%s has undeclared variables %r' % (s, key, sorted(extra_vars)), seq)
                rp = _names(rnode)
                mp = _names(mnode)
                if rp != mp:
                    return V('C09', 'C09.cell-parties', 'plain',
                             '%s/%s holds parties %r, expected %r' % (s, key, rp, mp), seq)
        # C11: every node holds its own process instance
        if ids is not None:
            seen_obj = {}
            for path, ident in ids.items():
                if path and path[0] == '<P>':
                    if ident in seen_obj:
                        return V('C11', 'C11.shared-process-instance', 'plain',
                                 'nodes %r and %r hold one and the same process object' % (
                                     seen_obj[ident][1:], path[1:]), seq)
                    seen_obj[ident] = path
        # identity frame condition
        if ids is not None and last_ids is not None:
            for path, ident in ids.items():
                if path and path[0] == '<P>':
                    continue
                old = last_ids.get(path)
                if old is None or old == ident:
                    continue
                if any(path[:len(f)] == f for f in footprint):
                    continue
                return V('C09', 'C09.identity', 'plain',
                         'node %r was replaced by a different object although no operation named it' % (path,), seq)
            for (src, dst) in m.moved:
                for path, ident in last_ids.items():
                    if path[:2] == src:
                        new = ids.get(dst + path[2:])
                        if new is not None and new != ident and not _is_party_path(m, dst + path[2:]):
                            return V('C09', 'C09.identity', 'moved',
                                     'moved node %r did not keep its identity' % (path,), seq)
        if ids is not None:
            last_ids = ids
            footprint = set()
            m.moved = []
        return None

    def expected_view(name, path):
        if name in actor_names:
            t = m.tree()
            out_ = {st: {k: {'vars': dict(c['vars'])} for k, c in t[st].items()} for st in STORES}
            if m.tokens is not None:
                out_['tokens'] = dict(m.tokens)
            return out_
        if name in viewers:
            vw = viewers[name]
            t = m.tree()
            return {'look': {k: {'vars': {v: c['vars'][v] for v in vw['sees']}}
                             for k, c in t[vw['store']].items()}}
        cell = m.find(path) if path else None
        if cell is None:
            return None
        for tmpl in case['templates'].values():
            for sp in tmpl.get('procs', []):
                if sp['name'] == name:
                    return {'vars': {v: cell.vars[v] for v in sp['declares']}}
            for sp in tmpl.get('steps', []):
                if sp['name'] == name:
                    return {'vars': {v: cell.vars[v] for v in (sp.get('src', 'n'), sp['out'])}}
        return None

    stats['known_hits'] = m.known_hits
    phase = None            # {'live': set(paths), 'ran': set(paths)}
    sched = {}              # uid -> {'last_end', 'poll', 'quiet', 'pending', 'path', 'first'}
    ops_info = {}
    created_at = {}         # cell path (store, key) -> creation time
    replaced_at = {}        # cell path -> time of the last in-place generate
    restarted = False

    def live_steps():
        return set(p_ for p_, d in m.live_parties().items() if d.get('kind') == 'step')

    def end_phase(seq):
        nonlocal phase
        if phase is None:
            return None
        now_live = live_steps()
        missing = [p_ for p_ in phase['live'] if p_ not in phase['ran'] and p_ in now_live]
        phase = None
        if missing:
            return V('C10', 'C10.step-missed', 'plain',
                     'step %r existed when the phase began and still exists, but did not run in it' % (missing[0],), seq)
        return None

    for ev in log:
        k = ev['k']
        seq = ev['seq']
        if k == 'OPSTART':
            ops_info[ev['op']] = ev
        if k == 'RESTART':
            restarted = True
            sched.clear()
            last_ids = None
            pending_nu.clear()
        # ---- step phases (C10: each step once per phase) ----
        if k == 'STEPNU':
            if phase is None:
                phase = {'live': live_steps(), 'ran': set(), 'applied': set()}
            p_ = tuple(ev.get('path') or ())
            if p_ in phase['ran']:
                return [V('C10', 'C10.step-ran-twice', 'after-' + last_struct,
                          'step %r ran twice in one phase at %r' % (p_, ev['T']), seq)]
            if p_ not in phase['live']:
                return [V('C10', 'C10.step-ran-too-early', 'plain',
                          'step %r was created during this phase and already runs in it' % (p_,), seq)]
            # ... at its place in the flow: after the steps it depends on, with their updates applied
            me = m.live_parties().get(p_) or {}
            for dep in (me.get('flow') or []):
                dp = p_[:-1] + tuple(dep)
                if dp in phase['live'] and dp in m.live_parties() and dp not in phase['applied']:
                    return [V('C10', 'C10.flow-order', 'after-' + last_struct,
                              'step %r ran at %r before the update of its dependency %r was applied in this phase' % (
                                  p_, ev['T'], dp), seq)]
            if me.get('flow'):
                probe('flow-dependency-checked')
            phase['ran'].add(p_)
        elif k == 'OPEND' and ev.get('exc'):
            phase = None      # the phase was cut short by an exception, judged below
        elif k in ('POLL', 'NU', 'EMIT', 'OPEND') or (
                k == 'COND' and (m.live_parties().get(tuple(ev.get('path') or ())) or {}).get('kind') != 'step'):
            err = end_phase(seq)
            if err:
                return [err]
        # ---- process schedules (C10: own schedule, start at creation) ----
        if k == 'POLL':
            sd = sched.setdefault(ev['uid'], {'last_end': None, 'quiet': False, 'pending': None})
            sd['poll'] = ev
            if sd['last_end'] is None:
                # first poll of this instance: it enters the simulation now
                cpath = tuple((ev.get('path') or ())[:2])
                want_T = created_at.get(cpath, None)
                if cpath in replaced_at:
                    # a process that replaced another one in place enters the simulation then
                    want_T = replaced_at[cpath]
                if want_T is not None and ev['T'] != want_T and not restarted:
                    return [V('C10', 'C10.start-time', 'plain',
                              '%s was created at %r but first asked for a timestep at %r' % (
                                  ev['uid'], want_T, ev['T']), seq)]
                sd['last_end'] = ev['T']
        elif k == 'COND' and ev['uid'] in sched and not ev['ans']:
            sched[ev['uid']]['quiet'] = True
        elif k == 'NU' and ev['uid'] in sched:
            sd = sched[ev['uid']]
            if sd.get('poll') is not None:
                o = ops_info.get(ev['op'])
                E = sd['last_end'] + sd['poll']['ans']
                if o is not None and o.get('force') and E > o['end']:
                    E = o['end']
                sd['pending'] = {'n': ev['n'], 'E': E, 'quiet': sd['quiet'], 'T': ev['T'],
                                 'path': tuple(ev.get('path') or ())}
        if k in ('POLL', 'COND', 'NU', 'STEPNU'):
            uid = ev['uid']
            name = uid.split('#')[0]
            path = ev.get('path')
            snap = ev.get('snap')
            if snap is not None:
                err = cmp_state(snap, seq, ev.get('ids'))
                if err:
                    return [err]
            # C10: only parties that are in the hierarchy are ever invoked
            live = m.live_parties()
            if path is None or tuple(path) not in live:
                return [V('C10', 'C10.dead-party-invoked', _dead_disc(m, uid, dead_uids),
                          '%s of %s (located at %r) although the hierarchy holds no such party' % (k, uid, path), seq)]
            want = expected_view(name, tuple(path))
            view = dict(ev.get('view') or {})
            view.pop('probe', None)
            if want is not None and not values_equal(view, want):
                return [V('C07', 'C07.view', _view_disc(view, want),
                          '%s of %s at %r: states %r, expected %r' % (k, uid, ev['T'], view, want), seq)]
            probe('view-checked')
            if k in ('NU', 'STEPNU'):
                pending_nu[(uid, ev['n'])] = ev
        elif k == 'APPLY':
            u = ev['uid']
            if not (isinstance(u, (tuple, list)) and len(u) == 2):
                continue
            nu = pending_nu.pop((u[0], u[1]), None)
            if nu is not None and nu['k'] == 'STEPNU' and phase is not None:
                phase['applied'].add(tuple(nu.get('path') or ()))
            model_version[0] += 1
            if batch['T'] != ev['T']:
                batch['T'], batch['struct'], batch['valued'] = ev['T'], set(), set()
            sd = sched.get(u[0])
            if sd is not None and sd.get('pending') is not None and sd['pending']['n'] == u[1]:
                pe = sd['pending']
                if not pe['quiet'] and not pe.get('moved') and ev['T'] != pe['E']:
                    return [V('C10', 'C10.schedule', 'after-' + last_struct,
                              'update %r of a surviving process was applied at %r, its interval ends at %r' % (
                                  u, ev['T'], pe['E']), seq)]
                sd['last_end'] = ev['T'] if not pe.get('moved') else sd['last_end']
                sd['quiet'] = False
                sd['pending'] = None
            if nu is None:
                return [V('C01', 'C01.apply.unknown', 'struct', 'update %r applied twice or never computed' % (u,), seq)]
            name = u[0].split('#')[0]
            update = nu['update']
            if name in actor_names:
                n_created = len(m.created)
                n_moved = len(m.moved)
                n_replaced = len(m.replaced)
                n_pd = len(m.party_deleted)
                fp_before = set(footprint)
                res = m.apply_actor_update(update, footprint)
                if len(m.party_deleted) > n_pd:
                    probe('party-deleted-from-cell')
                    if any(not m.stores[st_][key_].parties for (st_, key_, _) in m.party_deleted[n_pd:]
                           if key_ in m.stores[st_]):
                        probe('cell-left-without-parties')
                batch['struct'] |= (set(footprint) - fp_before) | set(
                    f for f in footprint if any(kk in str(update) for kk in ('_delete', '_divide', '_move')))
                for st_ in STORES:
                    for key_, val_ in (update.get(st_) or {}).items():
                        if not key_.startswith('_'):
                            batch['valued'].add((st_, key_))
                if batch['struct'] & batch['valued']:
                    sensitive.append(ev['T'])
                # F1: a cell removed, divided or moved while one of its parties has an update in flight
                gone = (set(footprint) - fp_before)
                for uid_, sd_ in sched.items():
                    pe_ = sd_.get('pending')
                    if pe_ and tuple(pe_.get('path', ())[:2]) in gone and ev['T'] < pe_['E']:
                        faults['F1-inflight-kill'] = faults.get('F1-inflight-kill', 0) + 1
                for kk_ in ('_add', '_delete', '_move', '_generate', '_divide'):
                    if kk_ in str(update):
                        faults['op' + kk_] = faults.get('op' + kk_, 0) + 1
                for cpath in m.created[n_created:]:
                    created_at[cpath] = ev['T']
                    replaced_at.pop(cpath, None)
                for cpath in m.replaced[n_replaced:]:
                    replaced_at[cpath] = ev['T']
                for (src, dst) in m.moved[n_moved:]:
                    # a moved process starts afresh at its new path
                    created_at[dst] = ev['T']
                    for uid_, sd_ in sched.items():
                        pth = (sd_.get('pending') or {}).get('path') or ()
                        pl = sd_.get('poll')
                        ppath = tuple((pl or {}).get('path') or ())
                        if ppath[:2] == src or pth[:2] == src:
                            sd_['last_end'] = ev['T']
                            sd_['quiet'] = False
                            if sd_.get('pending'):
                                sd_['pending']['moved'] = True
                if res == 'illegal-add':
                    expect_exception = seq
                if any(kk in str(update) for kk in ('_add', '_delete', '_move', '_generate', '_divide')):
                    probe('structural-update-applied')
                if '_divide' in str(update):
                    probe('division')
                    last_struct = 'divide-copy' if "'processes'" not in str(update) else 'divide'
                elif '_move' in str(update):
                    probe('move')
                    last_struct = 'move'
                elif '_delete' in str(update):
                    last_struct = 'delete'
            elif name in viewers:
                pass
            else:
                cell = m.find(tuple(nu.get('path') or ()))
                batch['valued'].add(tuple((nu.get('path') or ())[:2]))
                if batch['struct'] & batch['valued']:
                    sensitive.append(ev['T'])
                if cell is None:
                    probe('update-to-vanished-cell-dropped')
                else:
                    for var, val in ((update.get('vars')) or {}).items():
                        m.apply_value(cell, var, val)
        elif k == 'EMIT' and ev.get('table') == 'history':
            err = cmp_state(ev.get('snap') or {}, seq, ev.get('ids'))
            if err:
                if ev['op'] == -1 and not restarted and err['prop'] == 'C09' and not any(
                        a_['kind'] == 'step' for a_ in case['actors']):
                    # the hierarchy as first built (no update applied yet): C15
                    err = V('C15', 'C15.initial-state', err['rule'], 'after construction: ' + err['detail'], seq)
                return [err]
            probe('state-checked')
            # C12: rows follow the changing shape (every cell variable is flagged for emission)
            row = {kk: vv for kk, vv in ev['row'].items() if kk != 'time'}
            t = m.tree()
            for s in STORES:
                rs = row.get(s) or {}
                if set(rs) != set(t[s]):
                    return [V('C12', 'C12.row-shape', 'cells',
                              'row at %r lists cells %r of %s, hierarchy has %r' % (
                                  ev['row'].get('time'), sorted(rs), s, sorted(t[s])), seq)]
                for key in t[s]:
                    rv = (rs[key] or {}).get('vars') or {}
                    for var in cellvars:
                        mv_ = t[s][key]['vars'][var]
                        if hasattr(mv_, 'magnitude'):
                            from dst.wiring import _emit_equal
                            # emitted in the variable's units (those of its declared default)
                            if _emit_equal(rv.get(var), mv_, _dec(cellvars[var]['default']).units):
                                continue
                        if mv_ is None and rv.get(var, '<absent>') in ('<absent>', None):
                            # emit_data() documents None as "nothing to emit": a variable
                            # that holds None has no entry in the row
                            continue
                        if not values_equal(rv.get(var, '<absent>'), mv_):
                            return [V('C12', 'C12.row-content', 'value',
                                      'row at %r: %s/%s/%s = %r, state %r' % (
                                          ev['row'].get('time'), s, key, var, rv.get(var, '<absent>'),
                                          t[s][key]['vars'][var]), seq)]
        elif k == 'OPEND':
            if ev.get('exc'):
                for nu in pending_nu.values():
                    if nu['uid'].split('#')[0] in actor_names:
                        seen_keys = set()
                        for added in ((nu['update'].get('agents') or {}).get('_add') or []):
                            if (added['key'] in m.stores['agents'] or added['key'] in seen_keys) \
                                    and 'cannot add' in ev['exc']:
                                expect_exception = nu['seq']
                            seen_keys.add(added['key'])
                        for added in ((nu['update'].get('tokens') or {}).get('_add') or []):
                            if m.tokens is not None and added['key'] in m.tokens and 'cannot add' in ev['exc']:
                                expect_exception = nu['seq']
                if expect_exception is not None:
                    probe('illegal-add-rejected')
                    return []
                disc = ev['exc']
                if 'is still pending' in (run.exc[2] if run.exc else ''):
                    return [V('C10', 'C10.command-pending', 'after-' + last_struct,
                              'the engine sent a command to a process that still has one pending '
                              '(last structural operation: %s): %s' % (last_struct, run.exc[2][-700:]), seq)]
                if ev['op'] == -1 and not restarted:
                    return [V('C15', 'engine-exception', disc,
                              'construction raised %s: %s' % (ev['exc'], (run.exc[2] if run.exc else '')[-700:]), seq)]
                if 'overlapping steps' in (run.exc[2] if run.exc else ''):
                    return [V('C10', 'C10.step-registered-twice', 'after-' + last_struct,
                              'a step was registered a second time (last structural operation: %s): %s' % (
                                  last_struct, run.exc[2][-500:]), seq)]
                return [V('C09', 'engine-exception', disc, 'op %d raised %s: %s' % (
                    ev['op'], ev['exc'], (run.exc[2] if run.exc else '')), seq)]
            if expect_exception is not None:
                return [V('C09', 'C09.add-existing-accepted', 'plain',
                          'an _add of an existing key was not rejected', expect_exception)]
    return []


def _prune(d):
    if isinstance(d, dict):
        out = {}
        for k, v in d.items():
            pv = _prune(v)
            if isinstance(pv, dict) and not pv:
                continue
            out[k] = pv
        return out
    if isinstance(d, (list, tuple)):
        return [_prune(x) for x in d]
    return d


def _merge_trees(a, b):
    out = copy.deepcopy(a) if isinstance(a, dict) else {}
    for k, v in (b or {}).items():
        if isinstance(v, dict) and isinstance(out.get(k), dict):
            out[k] = _merge_trees(out[k], v)
        else:
            out[k] = copy.deepcopy(v)
    return out


def check_published(case, run):
    """C10: the composite the engine publishes describes the hierarchy."""
    for (i, pub, alias) in run.extra.get('published') or []:
        for key in ('processes', 'steps', 'flow', 'topology'):
            if isinstance(pub['pub_' + key], str) or isinstance(pub['store_' + key], str):
                return [V('C10', 'C10.published', 'unreadable',
                          'after op %d: %s / %s' % (i, pub['pub_' + key], pub['store_' + key]))]
        pp = _prune(_merge_trees(pub['pub_processes'], pub['pub_steps']))
        sp = _prune(_merge_trees(pub['store_processes'], pub['store_steps']))
        if pp != sp:
            return [V('C10', 'C10.published', 'processes',
                      'after op %d the engine publishes processes/steps %r, the hierarchy holds %r' % (i, pp, sp))]
        # steps must be published as steps (or, for legacy derivers, as processes), never both
        both = _overlap(pub['pub_processes'], pub['pub_steps'])
        if both:
            return [V('C10', 'C10.published', 'step-in-both',
                      'after op %d %r is published both as a process and as a step' % (i, both))]
        pf, sf = _prune(pub['pub_flow']), _prune(pub['store_flow'])
        if pf != sf:
            return [V('C10', 'C10.published', 'flow',
                      'after op %d the engine publishes flow %r, the hierarchy holds %r' % (i, pf, sf))]
        pt, st = _prune(pub['pub_topology']), _prune(pub['store_topology'])
        if pt != st:
            return [V('C10', 'C10.published', 'topology',
                      'after op %d the engine publishes topology %r, the hierarchy holds %r' % (i, pt, st))]
        if pub.get('stale_objects'):
            kind_, p_ = pub['stale_objects'][0]
            return [V('C10', 'C10.published', 'stale-object',
                      'after op %d the engine publishes under %s/%s an object that is not the one the '
                      'hierarchy holds at that path' % (i, kind_, p_))]
        if pub.get('nodes') is not None:
            have = set(tuple(n) for n in pub['nodes'])
            for key in ('processes', 'steps', 'topology'):
                stale = _stale_branches(pub['pub_' + key], have, key == 'topology')
                if stale:
                    return [V('C10', 'C10.published', 'stale-compartment',
                              'after op %d the engine publishes %s with a compartment %r that the hierarchy '
                              'does not hold' % (i, key, stale[0]))]
        if alias is False:
            return [V('C10', 'C10.published', 'composite-not-updated',
                      'after op %d the Composite the engine was built from no longer aliases what it publishes' % i)]
    return []


def _stale_branches(tree, have, empties_only, path=()):
    """Paths of (possibly empty) dictionaries in a published tree that are no
    store of the hierarchy.  In the processes and steps trees every dictionary
    is a compartment; in the topology the dictionaries below a process name are
    port wirings, so only empty dictionaries are looked at there."""
    out = []
    if not isinstance(tree, dict):
        return out
    for k, v in tree.items():
        if not isinstance(v, dict):
            continue
        p = path + (k,)
        if p not in have:
            if not empties_only or not v:
                out.append(p)
            continue
        out += _stale_branches(v, have, empties_only, p)
    return out


def _overlap(a, b, path=()):
    out = []
    if isinstance(a, dict) and isinstance(b, dict):
        for k in a:
            if k in b:
                if isinstance(a[k], dict) or isinstance(b[k], dict):
                    out += _overlap(a[k], b[k], path + (k,))
                else:
                    out.append(path + (k,))
    return out


def _is_party_path(m, path):
    return len(path) >= 3 and path[2] != 'vars'


def _classify_keys(m, store, extra, missing):
    # bug-compatible switch for the known finding: tuple-form deletes are ignored
    tup = set(k[1] for k in m.tuple_deletes if k[0] == store)
    if extra and not missing and set(extra) <= tup:
        return 'entry-is-tuple-path', 'C09.delete.not-removed'
    if extra:
        return 'extra-cell', 'C09.cells'
    return 'missing-cell', 'C09.cells'


def _value_disc(m, s, key):
    return 'plain'


def _dead_disc(m, uid, dead):
    return 'plain'


def _view_disc(view, want):
    def keys(d, p=()):
        out = set()
        if isinstance(d, dict):
            for k, v in d.items():
                out.add(p + (k,))
                out |= keys(v, p + (k,))
        return out
    kv, kw = keys(view), keys(want)
    if kv - kw:
        return 'extra-keys'
    if kw - kv:
        return 'missing-keys'
    return 'value'


def validate(case):
    if not case['ops'] or not case['actors']:
        raise HarnessError('empty case')
    for op in case['ops']:
        if op[1] < 1:
            raise HarnessError('zero interval')
    for t in case['templates'].values():
        for sp in t['procs']:
            if any(v < 1 for v in sp['ts']['vals']) or not sp['ts']['vals']:
                raise HarnessError('bad timestep')
            if 'n' not in sp['declares']:
                raise HarnessError('grow must declare n')
    for a in case['actors'] + case.get('viewers', []):
        if any(v < 1 for v in a['ts']['vals']) or not a['ts']['vals']:
            raise HarnessError('bad timestep')
    if 'n' not in case['cellvars']:
        raise HarnessError('n missing')
    for t in case['templates'].values():
        for sp in t.get('steps', []):
            if sp['out'] not in case['cellvars']:
                raise HarnessError('step output undeclared')
    for v in case.get('viewers', []):
        if any(x not in case['cellvars'] for x in v['sees']):
            raise HarnessError('viewer sees undeclared variable')


NONTRIVIAL = {
    'C09': ('structural-update-applied',),
    'C10': ('structural-update-applied',),
    'C11': ('division',),
    'C07': ('structural-update-applied',),
    'C12': ('structural-update-applied',),
}


def evaluate(case, prop=None):
    validate(case)
    run = execute(case)
    stats = {}
    vs = check(case, run, stats)
    left = bool(stats.get('probes', {}).get('left-the-domain'))
    if (run.exc is None or vs == []) and not left:
        vs += check_published(case, run)
    executions = 1
    if prop in (None, 'C10') and not vs and run.exc is None and not left:
        i = restart_point(case)
        if i is not None:
            run_r = execute(case, restart_after=i)
            executions += 1
            vs += check_restart(case, run, run_r, i, stats.get('order_sensitive', []))
            if not vs:
                # the rebuilt engine must satisfy every oracle on its own as well
                vs += [v for v in check(case, run_r, {}) if v['prop'] != 'C11' or True]
            stats.setdefault('probes', {})['restart-differential'] = 1
    probes = stats.get('probes', {})
    keys = NONTRIVIAL.get(prop) or ('structural-update-applied',)
    final_T = run.log[-1]['T'] if run.log else 0
    return {
        'violations': vs, 'probes': probes,
        'nontrivial': any(probes.get(k) for k in keys),
        'shape': kernel.shape_of(run.log), 'events': len(run.log),
        'sim_seconds': final_T, 'faults': dict(stats.get('faults', {}), **(
            {'F6-restart': 1} if probes.get('restart-differential') else {})), 'executions': executions,
        'digest': run.digest, 'known_hits': stats.get('known_hits', {}),
    }


def restart_point(case):
    """Index of a forced-completion op (`update`, or `run_for` with
    force_complete: a quiescent point) that is not the last op, or None.  Not applicable when an actor is a step: the new
    engine's constructor runs a step phase, which for an actor is one more
    structural operation."""
    if any(a['kind'] == 'step' for a in case['actors']):
        return None
    cands = [i for i, op in enumerate(case['ops'][:-1])
             if op[0] == 'update' or (op[0] == 'run_for' and len(op) > 2 and op[2])]
    if not cands:
        return None
    # any quiescent point of the history, chosen by the case's own seed
    return cands[Rng(derive(case.get('seed', 0), 'restart')).below(len(cands))]


def _rows_after(run, T):
    out = {}
    for e in run.log:
        if e['k'] == 'EMIT' and e.get('table') == 'history' and e['row'].get('time') >= T:
            out[e['row']['time']] = {k: v for k, v in e['row'].items() if k != 'time'}
    return out


def check_restart(case, run, run_r, i, sensitive=()):
    """F6: a new engine built from the published composite and the current
    state at a quiescent point continues identically."""
    if run_r.exc is not None:
        return [V('C10', 'C10.restart', 'exception',
                  'rebuilding the engine from the published composite after op %d, or continuing it, raised %s: %s' % (
                      i, run_r.exc[1], run_r.exc[2][-600:]))]
    T = None
    for e in run_r.log:
        if e['k'] == 'RESTART':
            T = e['T']
    if T is None:
        return []
    a, b = _rows_after(run, T), _rows_after(run_r, T)
    # batches in which a structural operation and a value update address the
    # same cell do not commute; the order inside a batch follows the listing
    # order of the processes, which a rebuilt engine need not share.  Rows are
    # comparable up to the first such batch.
    later = [t for t in sensitive if t > T]
    if later:
        cut = min(later)
        a = {t: r for t, r in a.items() if t < cut}
        b = {t: r for t, r in b.items() if t < cut}
    if list(a.keys()) != list(b.keys()):
        return [V('C10', 'C10.restart', 'times',
                  'after a restart at %r rows are emitted at %r..., the continued engine emits at %r...' % (
                      T, list(b)[:6], list(a)[:6]))]
    for t in a:
        if not values_equal(_rowvals(a[t]), _rowvals(b[t])):
            return [V('C10', 'C10.restart', 'rows',
                      'after a restart at %r the row at %r differs: continued %r, rebuilt %r' % (T, t, a[t], b[t]))]
    return []


def _rowvals(row):
    return {s: row.get(s) for s in STORES}
