"""SimMP: simulated worker transport for ParallelProcess (C13).

`multiprocessing.get_context()` is replaced (only while a simulation is
active) by a context whose Pipe is a pair of in-memory queues and whose
Process runs the real target - vivarium's own `_handle_parallel_process` - in
a real thread that only ever runs while it holds the baton.  Every send, recv,
start, join, close and thread exit is a sync point at which the seeded
scheduler decides who continues; exactly one task runs at any time, so an
execution is a deterministic function of the scheduler stream.  Everything that
crosses a pipe is pickled and unpickled, as in the real system."""

import multiprocessing
import pickle
import threading
from collections import deque

from dst.rec import REC
from dst.rng import Rng


class SimDeadlock(BaseException):
    """No task can run: e.g. join() on a worker that was never told to stop."""


class SimAbort(BaseException):
    """Raised inside parked worker threads at teardown."""


class Task:
    def __init__(self, name):
        self.name = name
        self.go = threading.Event()
        self.blocked = None        # None | ('recv', conn) | ('join', proc)
        self.finished = False
        self.thread = None


class Sim:
    def __init__(self):
        self.active = False
        self.reset(0)

    def reset(self, seed):
        self.rng = Rng(seed)
        self.main = Task('engine')
        self.tasks = [self.main]
        self.current = self.main
        self.deadlock = False
        self.abort = False
        self.conns = []
        self.procs = []
        self.switches = 0
        self.sync_points = 0
        self.log = []              # transport events (also mirrored into REC)
        self.choices = []          # scheduler decisions (index among runnable)
        self.worker_exc = []

    # ---- scheduling ----------------------------------------------------
    def runnable(self, t):
        if t.finished:
            return False
        b = t.blocked
        if b is None:
            return True
        if b[0] == 'recv':
            return bool(b[1].inbox) or b[1].peer_closed()
        if b[0] == 'join':
            return b[1].task.finished
        return False

    def sync(self, me):
        """A sync point of task `me` (the current task).  Chooses who runs
        next; returns when `me` holds the baton again."""
        if self.abort and me is not self.main:
            raise SimAbort()
        self.sync_points += 1
        cands = [t for t in self.tasks if self.runnable(t)]
        if not cands:
            self._deadlock(me)
            return
        i = self.rng.below(len(cands))
        self.choices.append(i if len(cands) > 1 else 0)
        nxt = cands[i]
        if nxt is me:
            return
        self.switches += 1
        if REC.active:
            REC.ev('MP', what='switch', to=nxt.name)
        self.current = nxt
        nxt.go.set()
        self._park(me)

    def _park(self, me):
        me.go.wait()
        me.go.clear()
        if me is self.main:
            if self.deadlock:
                self.deadlock = False
                REC.deadlock_hit = True
                raise SimDeadlock('no runnable task')
        elif self.abort:
            raise SimAbort()

    def _deadlock(self, me):
        if REC.active:
            REC.ev('MP', what='deadlock', task=me.name,
                   blocked=[(t.name, t.blocked and t.blocked[0]) for t in self.tasks if not t.finished])
        if me is self.main:
            REC.deadlock_hit = True
            raise SimDeadlock('no runnable task')
        # hand the verdict to the engine thread and stay parked
        self.deadlock = True
        self.current = self.main
        self.main.go.set()
        self._park(me)

    def block(self, me, why):
        """Block task `me` until `why` is satisfied (others run meanwhile)."""
        me.blocked = why
        try:
            while not self.runnable(me):
                self.sync(me)
        finally:
            me.blocked = None

    def finish(self, me):
        """Task `me` (a worker) has returned from its target."""
        me.finished = True
        if self.abort:
            return
        cands = [t for t in self.tasks if self.runnable(t)]
        if not cands:
            self.deadlock = True
            self.current = self.main
            self.main.go.set()
            return
        i = self.rng.below(len(cands))
        self.choices.append(i if len(cands) > 1 else 0)
        nxt = cands[i]
        self.current = nxt
        nxt.go.set()

    def me(self):
        th = threading.current_thread()
        for t in self.tasks:
            if t.thread is th:
                return t
        return self.main

    # ---- teardown --------------------------------------------------------
    def teardown(self):
        """Release every parked worker with an abort and join the threads.
        Returns the names of the tasks that were still alive."""
        leftover = [t.name for t in self.tasks if t is not self.main and not t.finished]
        self.abort = True
        for t in self.tasks:
            if t is not self.main and t.thread is not None and t.thread.is_alive():
                t.go.set()
        for t in self.tasks:
            if t is not self.main and t.thread is not None:
                t.thread.join(timeout=10)
        stuck = [t.name for t in self.tasks if t is not self.main and t.thread is not None
                 and t.thread.is_alive()]
        self.active = False
        if stuck:
            raise RuntimeError('SimMP teardown: threads still alive: %r' % stuck)
        return leftover


SIM = Sim()


class SimConnection:
    def __init__(self, name):
        self.name = name
        self.inbox = deque()
        self.peer = None
        self.closed = False
        self.sent = 0
        self.received = 0
        self.ended = False

    def peer_closed(self):
        return self.peer is None or self.peer.closed

    def send(self, obj):
        me = SIM.me()
        if self.closed:
            raise OSError('handle is closed')
        data = pickle.dumps(obj)
        is_parent = self.name.endswith('/parent')
        what = obj[0] if (is_parent and isinstance(obj, tuple) and obj and isinstance(obj[0], str)) else 'result'
        # commands sent by the engine whose result it has not collected yet
        outstanding = (self.sent - self.received) if is_parent else None
        self.sent += 1
        if REC.active:
            REC.ev('MP', what='send', conn=self.name, msg=what, outstanding=outstanding,
                   after_end=self.ended if is_parent else None)
        if is_parent and what == 'end':
            self.ended = True
        self.peer.inbox.append(data)
        SIM.sync(me)

    def recv(self):
        me = SIM.me()
        if self.closed:
            raise OSError('handle is closed')
        SIM.block(me, ('recv', self))
        if not self.inbox:
            raise EOFError('peer closed')
        data = self.inbox.popleft()
        self.received += 1
        obj = pickle.loads(data)
        if REC.active:
            msg = None
            if self.name.endswith('/child') and isinstance(obj, tuple) and obj and isinstance(obj[0], str):
                msg = obj[0]
            REC.ev('MP', what='recv', conn=self.name, msg=msg)
        return obj

    def poll(self, timeout=None):
        return bool(self.inbox)

    def close(self):
        if REC.active:
            REC.ev('MP', what='close', conn=self.name)
        self.closed = True


class SimProcess:
    def __init__(self, target=None, args=(), kwargs=None, name=None, daemon=None):
        self.target = target
        self.args = args
        self.kwargs = kwargs or {}
        self.index = len(SIM.procs)
        self.name = 'worker%d' % self.index
        self.task = Task(self.name)
        self.started = False
        self.joined = False
        self.closed = False
        self.got_end = False
        self.party = None
        self.exc = None
        SIM.procs.append(self)

    def start(self):
        # arguments cross the process boundary pickled (as with forkserver);
        # the connection is ours and stays as it is
        conn, party, profile = self.args
        self.party = pickle.loads(pickle.dumps(party))
        args = (conn, self.party, profile)
        self.started = True
        SIM.tasks.append(self.task)
        if REC.active:
            REC.ev('MP', what='start', proc=self.name, party=getattr(party, 'name', '?'))

        def body():
            self.task.go.wait()
            self.task.go.clear()
            try:
                if not SIM.abort:
                    self.target(*args, **self.kwargs)
            except SimAbort:
                pass
            except BaseException as e:  # noqa: the worker process would die
                self.exc = e
                SIM.worker_exc.append('%s: %s: %s' % (self.name, type(e).__name__, e))
                try:
                    conn.close()
                except Exception:
                    pass
            finally:
                if REC.active and not SIM.abort:
                    REC.ev('MP', what='exit', proc=self.name)
                SIM.finish(self.task)
        th = threading.Thread(target=body, name='simmp', daemon=True)
        self.task.thread = th
        th.start()
        SIM.sync(SIM.me())

    def join(self, timeout=None):
        me = SIM.me()
        if REC.active:
            REC.ev('MP', what='join', proc=self.name)
        SIM.block(me, ('join', self))
        self.joined = True

    def close(self):
        if REC.active:
            REC.ev('MP', what='pclose', proc=self.name)
        if not self.task.finished:
            raise ValueError('Cannot close a process while it is still running.')
        self.closed = True

    def is_alive(self):
        return self.started and not self.task.finished

    def terminate(self):
        pass


class SimContext:
    def __init__(self, method):
        self.method = method

    def Pipe(self, duplex=True):
        n = len(SIM.conns) // 2
        a, b = SimConnection('pipe%d/parent' % n), SimConnection('pipe%d/child' % n)
        a.peer, b.peer = b, a
        SIM.conns += [a, b]
        return a, b

    def Process(self, *a, **kw):
        return SimProcess(*a, **kw)


_real_get_context = multiprocessing.get_context


def _get_context(method=None):
    if SIM.active:
        return SimContext(method)
    return _real_get_context(method)


def install():
    """Idempotent.  Outside an active simulation the real implementation is
    used, so real-forkserver runs are unaffected."""
    if multiprocessing.get_context is not _get_context:
        multiprocessing.get_context = _get_context


def begin(seed):
    install()
    SIM.reset(seed)
    SIM.main.thread = threading.current_thread()
    SIM.active = True


def end():
    return SIM.teardown()
