"""Recorder: the single, totally ordered event log of one simulated run,
the probe updater, the recording emitter and the deterministic hang budget.

Nothing here draws random numbers or reads a wall clock."""

import copy
import os
import sys
import hashlib

import numpy as np

REPO_PREFIX = None   # directory of the vivarium package under test


def _repo_prefix():
    global REPO_PREFIX
    if REPO_PREFIX is None:
        import os
        import vivarium
        REPO_PREFIX = os.path.dirname(os.path.abspath(vivarium.__file__))
    return REPO_PREFIX


class SimBudgetExceeded(BaseException):
    """Raised *inside* vivarium code when a driver op used more backward
    jumps than its budget (deterministic non-termination detector).
    BaseException so that `except Exception` / bare-except-reraise paths in
    the code under test cannot turn it into something else silently (the
    recorder flag decides anyway)."""


class HarnessError(Exception):
    """A problem in /verif code or an ill-formed case: never a verdict
    about vivarium-core."""


def _is_process(x):
    from vivarium.core.process import Process
    return isinstance(x, Process)


def canon(x):
    """Canonical, JSON-able, address-free form of a value."""
    if x is None or isinstance(x, (bool, int, str)):
        return x
    if isinstance(x, float):
        return x
    if isinstance(x, (np.integer,)):
        return int(x)
    if isinstance(x, (np.floating,)):
        return float(x)
    if isinstance(x, np.bool_):
        return bool(x)
    if isinstance(x, np.ndarray):
        return {'__nd__': x.tolist()}
    if isinstance(x, dict):
        return {str(k): canon(v) for k, v in x.items()}
    if isinstance(x, (list, tuple)):
        return [canon(v) for v in x]
    if isinstance(x, (set, frozenset)):
        return {'__set__': sorted(repr(canon(v)) for v in x)}
    if _is_process(x):
        return {'__proc__': getattr(x, 'name', '?')}
    try:
        from pint import Quantity, Unit
        if isinstance(x, Quantity):
            return {'__q__': [canon(x.magnitude), str(x.units)]}
        if isinstance(x, Unit):
            return {'__u__': str(x)}
    except Exception:  # pragma: no cover
        pass
    if callable(x):
        return {'__fn__': getattr(x, '__name__', 'fn')}
    return {'__repr__': type(x).__name__}


def snap_value(v):
    """Copy of a state tree as returned by Store.get_value(); process nodes
    (returned as (process, topology)) become a marker."""
    if isinstance(v, dict):
        return {k: snap_value(x) for k, x in v.items()}
    if isinstance(v, tuple) and len(v) == 2 and _is_process(v[0]):
        return ('<P>', getattr(v[0], 'name', '?'))
    if _is_process(v):
        return ('<P>', getattr(v, 'name', '?'))
    if isinstance(v, (list, np.ndarray, set)):
        return copy.deepcopy(v)
    return v


class Recorder:
    def __init__(self):
        self.reset()

    def reset(self):
        self.log = []
        self.engine = None
        self.t0 = 0.0
        self._uids = {}      # id(obj) -> uid
        self._keep = []      # strong refs so ids are never reused in a run
        self._names = {}     # base name -> count
        self.op = -1         # index of the driver op in progress (-1: construction)
        self.jumps = 0
        self.budget = None
        self.budget_hit = False
        self.deadlock_hit = False
        self.active = False
        self.snapshots = True
        self.extra = {}      # free per-run scratch (profiles)
        self.unraisable = []
        self._prog_t = None
        self._prog_seen = set()
        self._prog_epoch = 0

    # -- identity -----------------------------------------------------
    def uid_of(self, obj, create=True, base=None):
        # ParallelProcess wrappers stand for the party they wrap
        key = id(obj)
        uid = self._uids.get(key)
        if uid is None:
            if not create:
                nm = getattr(obj, 'name', type(obj).__name__)
                return '?' + str(nm)
            base = base or getattr(obj, 'name', type(obj).__name__)
            n = self._names.get(base, 0)
            self._names[base] = n + 1
            uid = '%s#%d' % (base, n)
            self._uids[key] = uid
            self._keep.append(obj)
        return uid

    # -- time & state ---------------------------------------------------
    def now(self):
        e = self.engine
        if e is None:
            return self.t0
        return e.__dict__.get('global_time', self.t0)

    def snapshot(self):
        e = self.engine
        if e is None or not self.snapshots:
            return None
        st = e.__dict__.get('state')
        if st is None:
            return None
        if self.extra.get('snap_cache'):
            # opt-in (large structural runs): the state only changes when an
            # update is applied, which invalidates the cache
            c = self.extra.get('snap_cached')
            if c is None:
                c = self.extra['snap_cached'] = snap_value(st.get_value())
            return c
        return snap_value(st.get_value())

    # -- progress (for the hang budget) ----------------------------------
    def progress(self, uid, kind):
        """A scripted party was called back.  The first callback of a kind
        for a party at a given simulated time counts as progress and resets
        the backward-jump counter, so that the budget bounds the work the
        engine does *between* two such events, however large the run."""
        t = self.now()
        if t != self._prog_t:
            self._prog_t = t
            self._prog_seen = set()
        key = (uid, kind, self._prog_epoch)
        if key not in self._prog_seen:
            self._prog_seen.add(key)
            self.jumps = 0

    # -- where is a party right now -------------------------------------
    def locate(self, obj):
        """Current hierarchy path of a process instance (None if it is not in
        the hierarchy).  Bookkeeping of the harness, re-derived from
        engine.state after every applied update."""
        if not self.extra.get('locate'):
            return None
        cache = self.extra.setdefault('loc_cache', {})
        key = id(obj)
        if key in cache:
            return cache[key]
        e = self.engine
        st = e.__dict__.get('state') if e is not None else None
        found = None
        try:
            if st is not None:
                for path, node in st.depth():
                    v = node.value
                    mp = getattr(v, 'multiprocess', None)
                    if v is obj or (mp is not None and getattr(mp, 'party', None) is obj):
                        found = tuple(path)
                        break
        except Exception as exc:   # the harness' own bookkeeping failed: never a verdict
            self.extra['harness_fault'] = 'locate: %r' % (exc,)
        cache[key] = found
        return found

    def idmap(self):
        """path -> identity of the hierarchy node (frame condition on node
        identity, C09)."""
        e = self.engine
        st = e.__dict__.get('state') if e is not None else None
        if st is None:
            return None
        if self.extra.get('snap_cache'):
            c = self.extra.get('ids_cached')
            if c is None:
                c = self.extra['ids_cached'] = self._idmap(st)
            return c
        return self._idmap(st)

    def _idmap(self, st):
        out = {}
        try:
            for path, node in st.depth():
                out[tuple(path)] = id(node)
                v = node.value
                if _is_process(v):
                    # identity of the process object held by the node
                    out[('<P>',) + tuple(path)] = id(v)
        except Exception as exc:
            self.extra['harness_fault'] = 'idmap: %r' % (exc,)
            return None
        return out

    # -- log ------------------------------------------------------------
    def ev(self, kind, **kw):
        if len(self.log) > 150000 and self.budget is not None:
            # a run that keeps producing events without end is a hang too
            self.budget_hit = True
            self.budget = None
            raise SimBudgetExceeded('event budget exceeded')
        kw['k'] = kind
        kw['seq'] = len(self.log)
        kw['op'] = self.op
        if 'T' not in kw:
            kw['T'] = self.now()
        if kw.get('snap') is not None and self.extra.get('ids'):
            kw['ids'] = self.idmap()
        self.log.append(kw)
        return kw

    def digest(self):
        h = hashlib.blake2b(digest_size=8)
        dump = os.environ.get('VERIF_DUMPLOG')
        lines = []
        for e in self.log:
            line = repr(sorted((k, repr(canon(v))) for k, v in e.items()
                               if k not in ('snap', 'view', 'ids')))
            h.update(line.encode())
            if dump:
                lines.append(line)
        if dump:
            with open('%s.%d' % (dump, os.getpid()), 'a') as f:
                f.write('==== %s\n' % h.hexdigest() + '\n'.join(lines) + '\n')
        return h.hexdigest()


REC = Recorder()


# ---------------------------------------------------------------------------
# probe updater: the observation point for "an update was applied"
# ---------------------------------------------------------------------------

def probe_updater(current, update):
    try:
        if REC.active:
            REC.extra.pop('loc_cache', None)
            REC.extra.pop('snap_cached', None)
            REC.extra.pop('ids_cached', None)
            REC._prog_epoch += 1
            REC.jumps = 0
            REC.ev('APPLY', uid=update)
    except Exception:  # never raise from an updater
        pass
    return (current or 0) + 1


def install_registries():
    """Register the user-level updater and emitter used by every profile.
    Idempotent."""
    from vivarium.core.registry import updater_registry, emitter_registry
    if updater_registry.access('verif_probe') is None:
        updater_registry.register('verif_probe', probe_updater)
    if emitter_registry.access('verif_rec') is None:
        emitter_registry.register('verif_rec', RecEmitter)


class RecEmitter:
    """User emitter: records every emit call (payload copied, state
    snapshotted at that moment) and forwards to a real RAMEmitter."""

    def __init__(self, config):
        from vivarium.core.emitter import RAMEmitter
        self.config = config
        self.ram = RAMEmitter(dict(config))
        REC.extra['emitter'] = self

    def emit(self, data):
        if REC.active:
            table = data.get('table')
            if table == 'history':
                row = copy.deepcopy(data['data'])
                REC.ev('EMIT', table=table, row=row, snap=REC.snapshot())
            else:
                REC.ev('EMIT', table=table,
                       keys=sorted(data.get('data', {}).keys()))
        self.ram.emit(data)

    def get_data(self, query=None):
        return self.ram.get_data(query)


# ---------------------------------------------------------------------------
# deterministic hang budget (PEP 669)
# ---------------------------------------------------------------------------

_TOOL = 3
_mon_installed = False


def _on_jump(code, src, dst):
    if not code.co_filename.startswith(REPO_PREFIX):
        return sys.monitoring.DISABLE
    if dst < src and REC.budget is not None:
        REC.jumps += 1
        if REC.jumps > REC.budget:
            REC.budget_hit = True
            REC.budget = None   # raise once
            raise SimBudgetExceeded('backward-jump budget exceeded')
    return None


def install_monitor():
    global _mon_installed
    if _mon_installed:
        return
    _repo_prefix()
    mon = sys.monitoring
    try:
        mon.use_tool_id(_TOOL, 'verif-dst')
    except ValueError:
        pass
    mon.register_callback(_TOOL, mon.events.JUMP, _on_jump)
    mon.set_events(_TOOL, mon.events.JUMP)
    _mon_installed = True


def set_budget(n):
    REC.jumps = 0
    REC.budget = n
