"""Self-tests of the machinery.

determinism: the same seeds give the same event-log digests (a) twice in
different pool workers, (b) at two worker counts, (c) in a fresh interpreter
under a different PYTHONHASHSEED.

regress: every committed finding example that is recorded as fixed must no
longer violate; every one recorded as known must still reproduce."""

import json
import os
import subprocess
import sys

VERIF = os.path.dirname(os.path.dirname(os.path.abspath(__file__)))


def _digests(profile, base_seed, n, workers):
    from dst import batch
    prop = None
    agg = batch.search(profile, prop, base_seed, n, workers=workers,
                       stop_on_violation=False, chunk=max(1, n // (workers * 3) or 1),
                       opts={'digests': True})
    return {int(k): v for k, v in agg['digests'].items()}, agg


def determinism(args):
    from dst import profiles
    import vivarium  # noqa: import before fork
    n = args.n
    bad = 0
    pairs = 0
    names = profiles.names()
    if args.props:
        names = [p for p in names if p in args.props.split(',')]
    for prof in names:
        a, agg = _digests(prof, 77, n, 8)
        b, _ = _digests(prof, 77, n, 3)
        env = dict(os.environ)
        env['PYTHONHASHSEED'] = '4242'
        env['VERIF_HASHSEED'] = '4242'
        out = subprocess.run(
            [sys.executable, '-W', 'ignore', os.path.join(VERIF, 'dst', 'main.py'),
             'selftest', 'digests', '--props', prof, '--n', str(n)],
            env=env, capture_output=True, text=True, timeout=1800)
        try:
            c = {int(k): v for k, v in json.loads(out.stdout.strip().splitlines()[-1]).items()}
        except Exception:
            print('fresh interpreter failed for %s: %s %s' % (prof, out.stdout[-500:], out.stderr[-500:]))
            bad += 1
            continue
        if agg['harness_errors']:
            print('%s: %d harness errors, first: %s' % (prof, len(agg['harness_errors']), agg['harness_errors'][0][1][-400:]))
        for i in sorted(a):
            pairs += 2
            if a[i] != b.get(i):
                bad += 1
                print('DIVERGENCE %s run %d: 8 workers %s vs 3 workers %s' % (prof, i, a[i], b.get(i)))
            if a[i] != c.get(i):
                bad += 1
                print('DIVERGENCE %s run %d: hashseed 0 %s vs hashseed 4242 %s' % (prof, i, a[i], c.get(i)))
        print('%s: %d runs, digests compared across worker counts and hash seeds' % (prof, len(a)))
    print('determinism: %d digest pairs checked, %d divergences' % (pairs, bad))
    return 1 if bad else 0


def digests_cmd(args):
    import vivarium  # noqa
    prof = args.props
    a, _ = _digests(prof, 77, args.n, 4)
    print(json.dumps({str(k): v for k, v in a.items()}))
    return 0


def regress(args):
    from dst.main import load_findings, replay_file
    bad = 0
    for f in load_findings():
        ex = os.path.join(VERIF, f['example'])
        same, _, v = replay_file(ex, quiet=True)
        if f['status'] == 'fixed':
            if v is not None:
                print('REGRESSION %s: fixed finding violates again: %s %s' % (f['id'], v['rule'], v['detail'][:200]))
                bad += 1
            else:
                print('ok   fixed %s: no violation' % f['id'])
        else:
            if not same:
                print('NOTE known finding %s does not reproduce' % f['id'])
            else:
                print('ok   known %s reproduces' % f['id'])
    return 1 if bad else 0


def main(args):
    if args.what == 'determinism':
        return determinism(args)
    if args.what == 'digests':
        return digests_cmd(args)
    if args.what == 'regress':
        return regress(args)
    if args.what == 'forkserver':
        import vivarium  # noqa
        from dst import parallel
        done, problems = parallel.real_spot(n=min(args.n, 6))
        for pr in problems:
            print('PROBLEM', pr)
        print('forkserver: %d cases on the real transport, %d problems' % (done, len(problems)))
        return 1 if problems or not done else 0
    if args.what == 'sensitivity':
        from dst import sensitivity
        return sensitivity.main(args)
    print('unknown selftest', args.what)
    return 2
