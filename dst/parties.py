"""Scripted parties: the opaque "other side" of the engine's scheduler.

A party answers calculate_timestep / update_condition / next_update from
small integer choice streams carried in its parameters (plain JSON), indexed
by its *own* counters, and records every callback in the global event log.
All classes live in this importable module so that they pickle by reference
when they cross the (simulated or real) worker pipe."""

import copy

from vivarium.core.process import Process, Step

from dst.rec import REC, snap_value

GRID = 0.125  # dyadic grid unit


def log_copy(v):
    """Deep copy for the event log; process objects become markers."""
    if isinstance(v, dict):
        return {k: log_copy(x) for k, x in v.items()}
    if isinstance(v, (list, tuple)):
        return type(v)(log_copy(x) for x in v)
    if isinstance(v, Process):
        return ('<P>', getattr(v, 'name', '?'))
    return copy.deepcopy(v)


def _get(states, path):
    for k in path:
        states = states[k]
    return states


class ScriptedMixin:
    """Recording + choice-stream plumbing shared by processes and steps."""

    def _sinit(self):
        self._polls = 0       # number of calculate_timestep calls
        self._conds = 0       # number of update_condition calls
        self._k = 0           # number of next_update calls (interval number)

    @property
    def spec(self):
        return self._parameters['spec']

    def _uid(self):
        return REC.uid_of(self, base=self._parameters['spec']['name'])

    def _pick(self, stream, i):
        if not stream:
            return 0
        return stream[i % len(stream)]

    # ---- timestep -----------------------------------------------------
    def calculate_timestep(self, states):
        ts = self._ts_answer(states)
        if REC.active:
            REC.progress(self._uid(), 'P')
            REC.ev('POLL', uid=self._uid(), j=self._polls, ans=ts,
                   view=snap_value(states), snap=REC.snapshot(), path=REC.locate(self))
        self._polls += 1
        return ts

    def _ts_answer(self, states):
        t = self.spec.get('ts') or {'mode': 'const', 'vals': [8]}
        mode = t['mode']
        vals = t['vals']
        if mode == 'const':
            u = vals[0]
        elif mode == 'poll':       # a different answer at every poll (jitter)
            u = self._pick(vals, self._polls)
        elif mode == 'interval':   # idempotent between intervals
            u = self._pick(vals, self._k)
        elif mode == 'var':        # function of a viewed variable
            v = _get(states, t['var'])
            u = self._pick(vals, int(v) if v is not None else 0)
        else:
            raise ValueError(mode)
        num, den = t.get('unit') or (1, 8)
        return (u * num) / den

    # ---- condition ----------------------------------------------------
    def update_condition(self, timestep, states):
        c = self.spec.get('cond') or {'mode': 'none'}
        mode = c['mode']
        if mode == 'none':
            ans = True
        elif mode == 'param':      # the built-in `_condition` path
            ans = Process.update_condition(self, timestep, states)
        elif mode == 'poll':
            ans = bool(self._pick(c['vals'], self._conds))
        elif mode == 'interval':
            # quiet for vals[k] polls before interval k
            need = self._pick(c['vals'], self._k)
            ans = self._quiet_run >= need
        elif mode == 'var':
            v = _get(states, c['var'])
            ans = bool(self._pick(c['vals'], int(v) if v is not None else 0))
        else:
            raise ValueError(mode)
        if REC.active:
            REC.ev('COND', uid=self._uid(), j=self._conds, ts=timestep,
                   ans=bool(ans), view=snap_value(states), path=REC.locate(self),
                   snap=REC.snapshot() if REC.extra.get('cond_snap') else None)
        self._conds += 1
        if mode == 'interval':
            self._quiet_run = 0 if ans else self._quiet_run + 1
        return ans

    _quiet_run = 0

    # ---- update -------------------------------------------------------
    def next_update(self, timestep, states):
        uid = self._uid()
        k = self._k
        if REC.active:
            REC.progress(uid, 'N')
        view = snap_value(states)
        snap = REC.snapshot() if REC.active else None
        update = self._script_update(k, timestep, states)
        probe = self.spec.get('probe', 'probe')
        if probe:
            update[probe] = (uid, k)
        if REC.active:
            REC.ev('STEPNU' if self.is_step() else 'NU',
                   uid=uid, n=k, ts=timestep, view=view, snap=snap,
                   update=log_copy(update), path=REC.locate(self))
        self._k += 1
        return update

    def _script_update(self, k, timestep, states):  # pragma: no cover
        return {}

    def _base_schema(self):
        probe = self.spec.get('probe', 'probe')
        if probe:
            return {probe: {'_default': 0, '_updater': 'verif_probe'}}
        return {}


# ---------------------------------------------------------------------------
# kernel parties
# ---------------------------------------------------------------------------

def _perm_schema(self, schema):
    """Seeded permutation of the insertion order of ports and variables
    (C04: listing order is moot)."""
    perm = self._parameters.get('perm')
    if perm is None:
        return schema
    from dst.rng import Rng

    def rec(d, rng):
        if not isinstance(d, dict):
            return d
        keys = rng.shuffle(list(d.keys()))
        return {k: rec(d[k], rng) for k in keys}
    return rec(schema, Rng(perm))


class KProc(ScriptedMixin, Process):
    """Kernel process.

    spec:
      name     party base name
      ts, cond choice streams (see ScriptedMixin)
      vars     list of variables in port 'acc' (declared, default 0, emitted)
      writes   list of [var, amounts stream]: interval k adds amounts[k % n]
      flags    optional list of [flag var, values stream]: set-updates of a
               boolean in port 'flags' (drives `_condition` of other parties)
      fvars    flag variables declared (port 'flags'), default True
    """
    name = 'kproc'

    def __init__(self, parameters=None):
        super().__init__(parameters)
        self._sinit()

    def ports_schema(self):
        s = self.spec
        schema = self._base_schema()
        noemit = s.get('noemit') or []
        schema['acc'] = {
            v: {'_default': 0, '_emit': v not in noemit} for v in s.get('vars', [])}
        fv = s.get('fvars') or []
        if fv:
            schema['flags'] = {
                v: {'_default': True, '_emit': True, '_updater': 'set'}
                for v in fv}
        return _perm_schema(self, schema)

    def initial_state(self, config=None):
        init = self.spec.get('init_acc')
        return {'acc': dict(init)} if init else {}

    def _script_update(self, k, timestep, states):
        s = self.spec
        up = {}
        acc = {}
        for var, amounts in s.get('writes', []):
            acc[var] = self._pick(amounts, k)
        if acc:
            up['acc'] = acc
        fl = {}
        for var, vals in s.get('flags', []):
            fl[var] = bool(self._pick(vals, k))
        if fl:
            up['flags'] = fl
        return up


class KStep(ScriptedMixin, Step):
    """Kernel step: counts the phases it ran in (`set`s its own counter) and
    mirrors the sum of the accumulators it sees, so that steps take part in
    every kernel run without adding nondeterminism."""
    name = 'kstep'

    def __init__(self, parameters=None):
        super().__init__(parameters)
        self._sinit()

    def ports_schema(self):
        s = self.spec
        schema = self._base_schema()
        noemit = s.get('noemit') or []
        schema['acc'] = {
            v: {'_default': 0, '_emit': v not in noemit} for v in s.get('vars', [])}
        schema['out'] = {
            s['name'] + '_n': {'_default': 0, '_emit': True, '_updater': 'set'},
            s['name'] + '_sum': {'_default': 0, '_emit': True, '_updater': 'set'},
        }
        return _perm_schema(self, schema)

    def _script_update(self, k, timestep, states):
        s = self.spec
        tot = 0
        for v in s.get('vars', []):
            tot += states['acc'][v]
        return {'out': {s['name'] + '_n': k + 1, s['name'] + '_sum': tot}}


# ---------------------------------------------------------------------------
# flow steps (C05)
# ---------------------------------------------------------------------------

def _digest(obj):
    import hashlib
    return int.from_bytes(
        hashlib.blake2b(repr(obj).encode(), digest_size=6).digest(), 'big')


class FStep(ScriptedMixin, Step):
    """A step that publishes a token [name, phase counter, digest of what it
    read] into the shared store `tok` with the `set` updater.

    spec:
      name   step name (also its token variable)
      reads  names of the steps whose tokens it reads (dependencies, or
             predecessors for flow-less derivers)
      vars   accumulators (port `acc`) it reads
      kill   optional {'at': k, 'pick': i}: in its k-th run delete the i-th
             compartment it sees in port `world` (modulo their number)
      gen    optional {'at': k, 'key': name, 'steps': [spec...], 'flow': {...}}:
             in its k-th run generate a compartment holding new steps
    """
    name = 'fstep'

    def __init__(self, parameters=None):
        super().__init__(parameters)
        self._sinit()

    def ports_schema(self):
        s = self.spec
        schema = self._base_schema()
        names = [s['name']] + [r for r in s.get('reads', []) if r != s['name']]
        # variables of the steps it will generate are declared up front: a
        # generated party only declares variables that exist or lie inside
        # its own compartment
        names += [g['name'] for g in (s.get('gen') or {}).get('steps', [])]
        schema['tok'] = {
            n: {'_default': 0, '_updater': 'set', '_emit': True} for n in names}
        noemit = s.get('noemit') or []
        schema['acc'] = {
            v: {'_default': 0, '_emit': v not in noemit} for v in s.get('vars', [])}
        if s.get('kill') or s.get('gen') or s.get('watch'):
            schema['world'] = {'*': {'alive': {'_default': 1, '_emit': True}}}
        return _perm_schema(self, schema)

    def _script_update(self, k, timestep, states):
        s = self.spec
        seen = [states['acc'].get(v) for v in s.get('vars', [])]
        seen += [states['tok'].get(r) for r in s.get('reads', [])]
        if s.get('watch'):
            # a watcher folds the compartments it sees into its token
            seen.append(sorted(states['world'].keys()))
        token = [s['name'], k, _digest(seen)]
        up = {'tok': {s['name']: token}}
        kill = s.get('kill')
        world = {}
        if kill and kill['at'] == k:
            kids = sorted(states['world'].keys())
            kids = [c for c in kids if c in kill.get('among', kids)]
            if kids:
                world['_delete'] = [kids[kill['pick'] % len(kids)]]
        gen = s.get('gen')
        if gen and gen['at'] == k and gen['key'] not in states['world']:
            steps = {}
            topo = {}
            flow = {}
            for sp in gen['steps']:
                steps[sp['name']] = FStep({'spec': sp, 'name': sp['name']})
                topo[sp['name']] = {
                    'tok': ('..', '..', 'tok'), 'acc': ('..', '..', 'acc'),
                    'probe': ('..', '..', 'verif_probe')}
                if sp.get('flow') is not None:
                    flow[sp['name']] = [tuple(d) for d in sp['flow']]
            world['_generate'] = [{
                'key': gen['key'], 'processes': {}, 'steps': steps,
                'flow': flow, 'topology': topo, 'initial_state': {}}]
        if world:
            up['world'] = world
        return up


# ---------------------------------------------------------------------------
# wiring parties (C06, C07, C08, C15)
# ---------------------------------------------------------------------------

def _set_in(d, path, value):
    for k in path[:-1]:
        d = d.setdefault(k, {})
    d[path[-1]] = value


def decode_value(v):
    """JSON case value -> python value ({'__q__': [m, unit]} quantities,
    {'__nd__': [...]} arrays)."""
    if isinstance(v, dict):
        if '__q__' in v:
            from vivarium.library.units import units
            m, u = v['__q__']
            return m * units.parse_expression(u)
        if '__nd__' in v:
            import numpy as np
            return np.array(v['__nd__'])
        return {k: decode_value(x) for k, x in v.items()}
    if isinstance(v, list):
        return [decode_value(x) for x in v]
    return v


def decode_schema(s):
    """JSON schema -> ports schema (decodes default values)."""
    if isinstance(s, dict):
        out = {}
        for k, v in s.items():
            if k in ('_default', '_value'):
                out[k] = decode_value(v)
            elif k == '_units':
                from vivarium.library.units import units
                out[k] = units.parse_expression(v).units
            else:
                out[k] = decode_schema(v)
        return out
    return s


class WProc(ScriptedMixin, Process):
    """Process with an arbitrary (generated) ports schema and scripted writes.

    spec:
      schema   JSON ports schema
      writes   list of {'path': [...port-relative schema path, '@i' picks the
               i-th current child of a glob...], 'vals': [...], 'mask': [...]}:
               in interval k the write is issued iff mask[k % len] and
               carries vals[k % len]
      init     optional initial_state() in port shape (JSON)
    """
    name = 'wproc'

    def __init__(self, parameters=None):
        super().__init__(parameters)
        self._sinit()
        self._last = None

    def ports_schema(self):
        schema = decode_schema(self.spec['schema'])
        schema.update(self._base_schema())
        return _perm_schema(self, schema)

    def initial_state(self, config=None):
        # the same stored object on every call, as a process that answers from
        # its parameters does: whoever merges into it changes the process
        if getattr(self, '_init_obj', None) is None:
            self._init_obj = decode_value(self.spec.get('init') or {})
        return self._init_obj

    def _script_update(self, k, timestep, states):
        # the update object handed out last time must not have been modified
        if self._last and REC.active:
            from dst.wmodel import values_equal
            for back, (obj, cp) in enumerate(reversed(self._last), 1):
                if not values_equal(log_copy(obj), cp):
                    REC.ev('MUTATED', uid=self._uid(), n=k - back, before=cp, after=log_copy(obj))
                    break
        up = {}
        for w in self.spec.get('writes', []):
            mask = w.get('mask') or [1]
            if not mask[k % len(mask)]:
                continue
            path = []
            node = states
            ok = True
            for seg in w['path']:
                if isinstance(seg, str) and seg.startswith('@'):
                    kids = sorted(node.keys()) if isinstance(node, dict) else []
                    if not kids:
                        ok = False
                        break
                    seg = kids[int(seg[1:]) % len(kids)]
                path.append(seg)
                node = node.get(seg) if isinstance(node, dict) else None
            if not ok:
                continue
            vals = w['vals']
            if w.get('echo'):
                # hand back the very object the process was shown for that variable
                src = states
                for seg in w['echo']:
                    src = src.get(seg) if isinstance(src, dict) else None
                    if src is None:
                        break
                if src is not None:        # (an output-only port shows nothing)
                    _set_in(up, path, src)
                continue
            _set_in(up, path, decode_value(vals[k % len(vals)]))
        return up

    def next_update(self, timestep, states):
        update = ScriptedMixin.next_update(self, timestep, states)
        # (the last three: an update object that was put into the state by reference is
        # only modified when a later update is applied)
        self._last = ((self._last or []) + [(update, log_copy(update))])[-3:]
        return update


# ---------------------------------------------------------------------------
# structural parties (C09, C10, C11, C07 under structural change)
# ---------------------------------------------------------------------------

def _divider_schema(d):
    """JSON divider description -> schema value."""
    if d is None:
        return None
    if isinstance(d, dict):
        out = dict(d)
        if 'topology' in out:
            out['topology'] = {k: tuple(v) for k, v in out['topology'].items()}
        return out
    return d


def cell_var_schema(cellvars):
    """{'n': {'default':..,'divider':..,'updater':..}} -> ports sub-schema."""
    sch = {}
    for v, a in cellvars.items():
        if a.get('branch'):
            # a branch of variables with a divider declared on the branch itself
            s = {'_divider': a['divider']}
            for kk, dv in a['default'].items():
                s[kk] = {'_default': dv, '_emit': True}
            sch[v] = s
            continue
        s = {'_default': decode_value(copy.deepcopy(a['default'])), '_emit': True}
        if a.get('updater'):
            s['_updater'] = a['updater']
        if a.get('divider') is not None:
            s['_divider'] = _divider_schema(copy.deepcopy(a['divider']))
        sch[v] = s
    return sch


class CProc(ScriptedMixin, Process):
    """Process living inside a compartment: accumulates seeded amounts into
    the compartment's variables (port `vars`)."""
    name = 'grow'

    def __init__(self, parameters=None):
        super().__init__(parameters)
        self._sinit()

    def ports_schema(self):
        s = self.spec
        schema = self._base_schema()
        full = cell_var_schema(s['cellvars'])
        schema['vars'] = {v: full[v] for v in s.get('declares', list(full))}
        return schema

    def _script_update(self, k, timestep, states):
        up = {}
        for var, amounts in self.spec.get('writes', []):
            up[var] = decode_value(copy.deepcopy(self._pick(amounts, k)))
        return {'vars': up} if up else {}


class TStep(ScriptedMixin, Step):
    """Idempotent step inside a compartment: t := n + offset (a pure function
    of the state, so that an extra phase changes nothing), and c := c + 1 with
    accumulate, so that running twice in one phase is visible."""
    name = 'tally'

    def __init__(self, parameters=None):
        super().__init__(parameters)
        self._sinit()

    def ports_schema(self):
        s = self.spec
        schema = self._base_schema()
        full = cell_var_schema(s['cellvars'])
        schema['vars'] = {v: full[v] for v in (s.get('src', 'n'), s['out']) if v in full}
        return schema

    def _script_update(self, k, timestep, states):
        s = self.spec
        # (an audit step reads what the tally step it depends on has written: src = 't')
        return {'vars': {s['out']: {'_value': states['vars'][s.get('src', 'n')] + s.get('offset', 1),
                                    '_updater': 'set'}}}


def build_cell(template, cellvars, depth_up, parallel=False):
    """processes/steps/flow/topology dictionaries of one compartment."""
    processes, steps, flow, topology = {}, {}, {}, {}
    probe = ('..',) * depth_up + ('verif_probe',)
    for sp in template.get('procs', []):
        spec = dict(sp)
        spec['cellvars'] = cellvars
        params = {'spec': spec, 'name': sp['name']}
        if parallel or sp.get('parallel'):
            params['_parallel'] = True
        if template.get('nest'):
            # the cell's processes live in a sub-compartment of the cell
            processes.setdefault('sub', {})[sp['name']] = CProc(params)
            topology.setdefault('sub', {})[sp['name']] = {
                'vars': ('..', 'vars'), 'probe': ('..',) + probe}
        else:
            processes[sp['name']] = CProc(params)
            topology[sp['name']] = {'vars': ('vars',), 'probe': probe}
    for sp in template.get('steps', []):
        spec = dict(sp)
        spec['cellvars'] = cellvars
        sparams = {'spec': spec, 'name': sp['name']}
        if parallel and sp.get('parallel', True):
            sparams['_parallel'] = True
        st = TStep(sparams)
        if template.get('nest') and template.get('nest_steps'):
            # the step lives next to the nested processes
            (processes if sp.get('where') == 'processes' else steps).setdefault('sub', {})[sp['name']] = st
            topology.setdefault('sub', {})[sp['name']] = {'vars': ('..', 'vars'), 'probe': ('..',) + probe}
            if sp.get('flow') is not None:
                flow.setdefault('sub', {})[sp['name']] = [tuple(d) for d in sp['flow']]
            continue
        if sp.get('where') == 'processes':
            processes[sp['name']] = st
        else:
            steps[sp['name']] = st
        topology[sp['name']] = {'vars': ('vars',), 'probe': probe}
        if sp.get('flow') is not None:
            flow[sp['name']] = [tuple(d) for d in sp['flow']]
    return processes, steps, flow, topology


def party_keys(templates):
    """Keys directly below a cell that hold processes: the names of the
    processes that are not nested, and 'sub' where a template nests them."""
    out = set()
    for t in templates.values():
        if t.get('nest'):
            out.add('sub')
        else:
            out.update(sp['name'] for sp in t.get('procs', []))
    return sorted(out)


class AProc(ScriptedMixin, Process):
    """Structural actor: maps its choice stream onto the compartments it
    currently sees in its glob ports `agents` and `pool`.

    spec: name, cellvars, templates {name: template}, ops: list of op
    descriptors, one per interval (cyclic):
      ['noop'] ['add', state] ['del', i] ['delpath', i] ['gen', template, state]
      ['div', i, mode, template, st1, st2] ['move', i, src, dst] ['move_up', i, src, dst, amount]
      ['add_del', state, i] ['add_existing', i] ['write', i, var, value] ['multi_del', i, j]
      ['del_party', i, j]
    """
    name = 'actor'

    def __init__(self, parameters=None):
        super().__init__(parameters)
        self._sinit()

    def ports_schema(self):
        s = self.spec
        schema = self._base_schema()
        sub = {'vars': cell_var_schema(s['cellvars'])}
        schema['agents'] = {'*': copy.deepcopy(sub)}
        schema['pool'] = {'*': copy.deepcopy(sub)}
        if s.get('tokens'):
            # a glob store whose children are plain variables
            schema['tokens'] = {'*': {'_default': 7, '_emit': True}}
        return schema

    def _fresh(self, k, j=0):
        return '%s_%d_%d' % (self.spec['name'], k, j)

    def _cell(self, template_name, depth_up=2):
        s = self.spec
        return build_cell(s['templates'][template_name], s['cellvars'], depth_up,
                          parallel=bool(s.get('parallel_cells')))

    def _script_update(self, k, timestep, states):
        s = self.spec
        ops = s.get('ops') or [['noop']]
        op = ops[k % len(ops)]
        kind = op[0]
        seen = {'agents': sorted(states['agents'].keys()), 'pool': sorted(states['pool'].keys())}
        # keep the population bounded: a crowded store is thinned instead
        if kind in ('add', 'gen', 'gen_empty', 'div', 'add_del', 'move_gen') and \
                len(seen['agents']) + len(seen['pool']) >= s.get('maxcells', 7):
            # (only the first actor deletes: two actors never issue
            # conflicting operations on one cell in the same batch)
            op = ['del', k] if s.get('thin', True) else ['noop']
            kind = op[0]

        def pick(store, i):
            kids = seen[store]
            return kids[i % len(kids)] if kids else None
        up = {}
        if kind == 'add':
            up['agents'] = {'_add': [{'key': self._fresh(k),
                                      'state': {'vars': decode_value(copy.deepcopy(op[1]))}}]}
        elif kind == 'del':
            c = pick('agents', op[1])
            if c is not None:
                up['agents'] = {'_delete': [c]}
        elif kind == 'delpath':
            c = pick('agents', op[1])
            if c is not None:
                up['agents'] = {'_delete': [(c,)]}
        elif kind == 'del_party':
            # one party (or the sub-compartment holding the nested ones) of a cell is
            # deleted, the cell stays; naming a key the cell does not hold deletes nothing
            c = pick('agents', op[1])
            names = party_keys(s['templates'])
            if c is not None and names:
                up['agents'] = {c: {'_delete': [names[op[2] % len(names)]]}}
        elif kind == 'multi_del':
            cs = [c for c in (pick('agents', op[1]), pick('agents', op[2])) if c is not None]
            cs = sorted(set(cs))
            if cs:
                up['agents'] = {'_delete': cs}
        elif kind == 'gen':
            procs, steps, flow, topo = self._cell(op[1])
            up['agents'] = {'_generate': [{
                'key': self._fresh(k), 'processes': procs, 'steps': steps, 'flow': flow,
                'topology': topo, 'initial_state': {'vars': decode_value(copy.deepcopy(op[2]))}}]}
        elif kind == 'gen_empty':
            # a compartment of state only, through `_generate` (no processes, no wiring)
            up['agents'] = {'_generate': [{
                'key': self._fresh(k), 'processes': {}, 'topology': {},
                'initial_state': {'vars': decode_value(copy.deepcopy(op[1]))}}]}
        elif kind == 'div':
            c = pick('agents', op[1])
            if c is not None:
                daughters = []
                for j, st in enumerate((op[4], op[5])):
                    d = {'key': self._fresh(k, j)}
                    if op[2] == 'explicit':
                        procs, steps, flow, topo = self._cell(op[3])
                        d.update(processes=procs, steps=steps, flow=flow, topology=topo)
                    if st:
                        d['initial_state'] = {'vars': decode_value(copy.deepcopy(st))}
                    daughters.append(d)
                up['agents'] = {'_divide': {'mother': c, 'daughters': daughters}}
        elif kind in ('move', 'move_up'):
            src, dst = op[2], op[3]
            c = pick(src, op[1])
            if c is not None:
                mv = {'source': (c,), 'target': (dst,)}
                if kind == 'move_up':
                    mv['update'] = {'vars': {'n': op[4]}}
                up[src] = {'_move': [mv]}
        elif kind == 'move_gen':
            # the store moves the cell away and then builds a new one under the
            # key that has just become free: two operations on one key, one update
            src, dst = op[2], op[3]
            c = pick(src, op[1])
            if c is not None:
                procs, steps, flow, topo = self._cell(op[4])
                up[src] = {'_move': [{'source': (c,), 'target': (dst,)}],
                           '_generate': [{
                               'key': c, 'processes': procs, 'steps': steps, 'flow': flow,
                               'topology': topo,
                               'initial_state': {'vars': decode_value(copy.deepcopy(op[5]))}}]}
        elif kind == 'add_del':
            c = pick('agents', op[2])
            u = {'_add': [{'key': self._fresh(k),
                           'state': {'vars': decode_value(copy.deepcopy(op[1]))}}]}
            if c is not None:
                u['_delete'] = [c]
            up['agents'] = u
        elif kind == 'add_twice':
            # the same new key twice in one `_add` list: the second is an add of an existing key
            key = self._fresh(k)
            st = {'vars': decode_value(copy.deepcopy(op[1]))}
            up['agents'] = {'_add': [{'key': key, 'state': st}, {'key': key, 'state': copy.deepcopy(st)}]}
        elif kind == 'add_existing':
            c = pick('agents', op[1])
            if c is not None:
                up['agents'] = {'_add': [{'key': c, 'state': {}}]}
        elif kind == 'write':
            c = pick('agents', op[1])
            if c is not None:
                up['agents'] = {c: {'vars': {op[2]: decode_value(copy.deepcopy(op[3]))}}}
        elif kind == 'add_write':
            # a structural operation in one store and a plain value update in
            # another store, in one update
            up['agents'] = {'_add': [{'key': self._fresh(k),
                                      'state': {'vars': decode_value(copy.deepcopy(op[1]))}}]}
            c = pick('pool', op[2])
            if c is not None:
                up['pool'] = {c: {'vars': {'n': op[3]}}}
        elif kind == 'del_named':
            if op[1] in states['agents']:
                up['agents'] = {'_delete': [op[1]]}
        elif kind == 'gen_named':
            # (re)generate a compartment under a given key: together with a
            # `del_named` by another actor in the same batch this replaces a cell
            procs, steps, flow, topo = self._cell(op[2])
            up['agents'] = {'_generate': [{
                'key': op[1], 'processes': procs, 'steps': steps, 'flow': flow,
                'topology': topo, 'initial_state': {'vars': decode_value(copy.deepcopy(op[3]))}}]}
        elif kind == 'add_leaf' and s.get('tokens'):
            up['tokens'] = {'_add': [{'key': self._fresh(k), 'state': op[1]}]}
        elif kind == 'add_leaf_existing' and s.get('tokens'):
            # an `_add` under a key the store holds - whatever value it holds (0 and False
            # are values too) - must be rejected
            kids = sorted(states['tokens'].keys())
            if kids:
                up['tokens'] = {'_add': [{'key': kids[op[1] % len(kids)], 'state': op[2]}]}
        elif kind == 'del_leaf' and s.get('tokens'):
            kids = sorted(states['tokens'].keys())
            if kids:
                up['tokens'] = {'_delete': [kids[op[1] % len(kids)]]}
        elif kind == 'write_leaf' and s.get('tokens'):
            kids = sorted(states['tokens'].keys())
            if kids:
                up['tokens'] = {kids[op[1] % len(kids)]: op[2]}
        return up


class AStep(AProc, Step):
    """The same actor as a step (structural updates issued inside a step
    phase)."""
    name = 'actor'


class VProc(ScriptedMixin, Process):
    """Viewer: a glob port over a store of compartments, declaring a subset
    of their variables; writes nothing (C07 under structural change)."""
    name = 'viewer'

    def __init__(self, parameters=None):
        super().__init__(parameters)
        self._sinit()

    def ports_schema(self):
        s = self.spec
        schema = self._base_schema()
        full = cell_var_schema(s['cellvars'])
        schema['look'] = {'*': {'vars': {v: full[v] for v in s['sees']}}}
        return schema

    def _script_update(self, k, timestep, states):
        return {}


# ---------------------------------------------------------------------------
# timeline (C19): the real TimelineProcess, observed
# ---------------------------------------------------------------------------

def make_tlproc():
    from vivarium.processes.timeline import TimelineProcess

    class TLProc(TimelineProcess):
        """vivarium's TimelineProcess with its callbacks recorded (behaviour
        unchanged: every method defers to the real implementation)."""
        name = 'timeline'

        def _uid(self):
            return REC.uid_of(self, base='timeline')

        def calculate_timestep(self, states):
            ts = super().calculate_timestep(states)
            if REC.active:
                REC.progress(self._uid(), 'P')
                REC.ev('POLL', uid=self._uid(), ans=ts, view=snap_value(states), snap=None)
            return ts

        def next_update(self, timestep, states):
            view = snap_value(states)
            if REC.active:
                REC.progress(self._uid(), 'N')
            update = super().next_update(timestep, states)
            n = getattr(self, '_verif_k', 0)
            self._verif_k = n + 1
            if REC.active:
                REC.ev('NU', uid=self._uid(), n=n, ts=timestep, view=view,
                       snap=REC.snapshot(), update=log_copy(update))
            return update
    return TLProc


_TLPROC = None


def TLProcClass():
    global _TLPROC
    if _TLPROC is None:
        _TLPROC = make_tlproc()
    return _TLPROC


class Holder(ScriptedMixin, Process):
    """Declares the variables a timeline drives (the timeline's own ports are
    globs without sub-schema) and never writes them."""
    name = 'holder'

    def __init__(self, parameters=None):
        super().__init__(parameters)
        self._sinit()

    def ports_schema(self):
        s = self.spec
        schema = self._base_schema()
        for port, vars_ in s['ports'].items():
            schema[port] = {v: {'_default': decode_value(copy.deepcopy(d)), '_emit': True}
                            for v, d in vars_.items()}
            if s.get('deep_env') and port == 'env':
                schema[port] = {'sub': schema[port]}
        return schema

    def _script_update(self, k, timestep, states):
        return {}


class VStep(VProc, Step):
    """The viewer as a step: it looks at the cells inside the step phase, after
    the structural updates of the steps it depends on."""
    name = 'viewer'


class RawProc(KProc):
    """A process whose ports_schema() hands out a dictionary it keeps (here: a
    part of its parameters, which every process built from the same composer
    configuration shares)."""
    name = 'rawproc'

    def ports_schema(self):
        return self._parameters['spec']['raw_schema']
