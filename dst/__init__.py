"""Deterministic simulation of vivarium-core (see /verif/DESIGN.md)."""
