"""Timeline profile (C19): the real TimelineProcess under seeded timelines
(any listing order, duplicate times, several events per tick), timesteps and
driver interrupts; a timer model over the recorded updates and emitted rows."""

import copy

from dst.rng import Rng, derive
from dst import harness, kernel
from dst.kernel import V, tval
from dst.rec import REC, HarnessError
from dst.wmodel import values_equal

PROFILE = 'timeline'
UNIT = [1, 8]


def gen_case(seed):
    r = Rng(seed)
    swarm = {'shuffle': r.chance(70), 'dups': r.chance(50), 'burst': r.chance(50),
             'zero': r.chance(40), 'offgrid': r.chance(40), 'beyond': r.chance(30),
             'noise': r.chance(50), 'interrupt': r.chance(60), 'falsy': r.chance(40),
             'shared': r.chance(50), 'helper': r.chance(30), 'lists': r.chance(40)}
    ts_units = r.pick([1, 2, 4, 8, 8, 12, 16])
    horizon = r.pick([16, 32, 64, 96])        # in grid units
    nev = r.rint(1, 8)
    times = []
    for i in range(nev):
        m = r.below(100)
        if swarm['zero'] and m < 12:
            t = 0
        elif swarm['dups'] and times and m < 35:
            t = r.pick(times)
        elif swarm['burst'] and times and m < 55:
            t = r.pick(times) + r.rint(1, max(1, ts_units * 8 - 1)) / 8.0 / 8.0 * 8
            t = r.pick(times) + r.rint(0, max(1, ts_units)) / 8.0
        elif swarm['beyond'] and m < 62:
            t = (horizon + r.rint(1, 40)) / 8.0
        elif swarm['offgrid'] and m < 80:
            t = r.rint(0, horizon * 4) / 32.0
        else:
            t = r.rint(0, horizon) / 8.0
        times.append(t)
    events = []
    shared = ['s0', 's1'] if swarm['shared'] else []
    seen_times = {}
    for i, t in enumerate(times):
        change = {}
        # a private variable (only this event names it) ...
        val = 100 + i
        if swarm['falsy'] and r.chance(35):
            val = r.pick([0, False, 0.0])
        change['env.e%d' % i] = val
        # ... and possibly shared ones; events with equal times never disagree
        for sv in shared:
            if r.chance(40):
                prev = seen_times.setdefault(t, {})
                if sv not in prev:
                    prev[sv] = 1000 * (i + 1) + (0 if sv == 's0' else 1)
                    if sv == 's1' and swarm['lists']:
                        prev[sv] = [i, i + 1]          # list-valued event values
                change['env.' + sv] = prev[sv]
        if r.chance(20):
            change['aux.a%d' % i] = 500 + i
        events.append([t, change])
    if swarm['shuffle']:
        events = r.shuffle(events)
    else:
        events = sorted(events, key=lambda e: e[0])
    ports = {'env': {}, 'aux': {}}
    for i in range(nev):
        ports['env']['e%d' % i] = r.pick([7, 7, 1, True])
    for sv in shared:
        ports['env'][sv] = 5
    for t, ch in events:
        for k in ch:
            p, v = k.split('.')
            ports[p].setdefault(v, 9)
    ports = {p: v for p, v in ports.items() if v}
    ops = []
    left = horizon
    n_ops = r.rint(1, 5) if swarm['interrupt'] else 1
    for i in range(n_ops):
        u = max(1, left // (n_ops - i)) if not swarm['interrupt'] else r.rint(1, max(1, left))
        u = min(u, left) if left > 0 else 1
        left = max(0, left - u)
        kind = r.below(3)
        ops.append([['run_for', u, False], ['run_for', u, True], ['update', u]][kind])
    if ops[-1][0] == 'run_for' and not ops[-1][2]:
        ops[-1] = ['update', ops[-1][1]]
    noise = []
    if swarm['noise']:
        for i in range(r.rint(1, 2)):
            noise.append({'name': 'p%d' % i, 'vars': ['a0'], 'fvars': [], 'path': ['p%d' % i],
                          'ts': {'mode': 'const', 'vals': [r.rint(1, 12)], 'unit': UNIT},
                          'cond': {'mode': 'none'}, 'writes': [['a0', [r.rint(1, 99)]]], 'noemit': []})
    # the variables of port env one level further down: ('env', 'sub', var)
    # (own stream: the cases of earlier seeds keep their shape)
    deep = Rng(derive(seed, 'deep')).chance(30)
    # a caller may list one dictionary object at two times (a recurring change):
    # one more event, at a time of its own, whose change IS the change object of
    # an earlier-listed event (own stream again; pairs of listing indices)
    alias = []
    ra = Rng(derive(seed, 'alias'))
    if ra.chance(30):
        taken = set(t for t, _ in events)
        # prefer an event that shares its time with a later-listed one
        first_of_dup = [i for i, (t, _) in enumerate(events)
                        if any(t2 == t for t2, _ in events[i + 1:]) and
                        not any(t2 == t for t2, _ in events[:i])]
        j = ra.pick(first_of_dup) if (first_of_dup and ra.chance(80)) else ra.below(len(events))
        t_new = None
        for _ in range(10):
            c = ra.rint(0, horizon) / 8.0
            if c not in taken:
                t_new = c
                break
        if t_new is not None:
            ev_new = [t_new, copy.deepcopy(events[j][1])]
            if swarm['shuffle']:
                pos = ra.rint(0, len(events))
            else:
                pos = len([1 for t, _ in events if t <= t_new])
            events = events[:pos] + [ev_new] + events[pos:]
            alias.append([j + 1 if pos <= j else j, pos])
    return {
        'profile': PROFILE, 'seed': seed,
        'opts': {'unit': UNIT, 'precision': None, 't0': 0, 'helper': swarm['helper'], 'deep_env': deep},
        'alias': alias,
        'timeline': events, 'ts_units': ts_units, 'ports': ports, 'noise': noise, 'ops': ops,
        'swarm': sorted(k for k, v in swarm.items() if v),
    }


def _path(key, deep):
    p, v = key.split('.')
    return (p, 'sub', v) if (deep and p == 'env') else (p, v)


def _vars(d, port, deep):
    """The variables of a port in a state / update dictionary."""
    sub = (d or {}).get(port) or {}
    if deep and port == 'env':
        sub = sub.get('sub') or {} if isinstance(sub, dict) else {}
    return sub


def build(case):
    from dst.parties import TLProcClass, Holder, KProc, decode_value
    processes, topology = {}, {}
    deep = bool(case['opts'].get('deep_env'))
    timeline = [(t, {_path(k, deep): copy.deepcopy(v) for k, v in ch.items()})
                for t, ch in case['timeline']]
    for j, k in case.get('alias') or []:
        # (a shrunk case may have lost one of the two)
        if j < len(timeline) and k < len(timeline) and j != k and \
                case['timeline'][j][1] == case['timeline'][k][1]:
            timeline[k] = (timeline[k][0], timeline[j][1])
    params = {'time_step': tval(case['ts_units'], UNIT), 'timeline': timeline}
    tl = TLProcClass()(params)
    processes['timeline'] = tl
    topology['timeline'] = {port: (port,) for port in tl.ports()}
    holder = Holder({'spec': {'name': 'holder', 'ports': case['ports'], 'deep_env': deep,
                              'ts': {'mode': 'const', 'vals': [64], 'unit': UNIT}}, 'name': 'holder'})
    processes['holder'] = holder
    topology['holder'] = dict({p: (p,) for p in case['ports']}, probe=('verif_probe',))
    for sp in case.get('noise', []):
        processes[sp['name']] = KProc({'spec': sp, 'name': sp['name']})
        topology[sp['name']] = {'acc': ('acc',), 'probe': ('verif_probe',)}
    return processes, topology


def execute(case):
    run = harness.Run()
    harness.begin_run(0.0, seed=case.get('seed', 0))
    try:
        processes, topology = build(case)
        eng = harness.make_engine(run, 3000000, processes=processes, topology=topology)
        if eng is not None:
            harness.drive(run, eng, case['ops'], UNIT, lambda op: 3000000)
    finally:
        harness.end_run()
    return harness.finish(run)


def validate(case):
    if not case['ops'] or not case['timeline']:
        raise HarnessError('empty case')
    if case['ts_units'] < 1:
        raise HarnessError('bad timestep')
    for op in case['ops']:
        if op[1] < 1:
            raise HarnessError('zero interval')
    seen = {}
    for t, ch in case['timeline']:
        if t < 0 or not ch:
            raise HarnessError('bad event')
        for k, v in ch.items():
            p, var = k.split('.')
            if var not in case['ports'].get(p, {}):
                raise HarnessError('undeclared timeline variable')
            d = seen.setdefault(t, {})
            if k in d and d[k] != v:
                raise HarnessError('equal-time events disagree')
            d[k] = v


def check(case, run, stats=None):
    stats = stats if stats is not None else {}
    probes = stats.setdefault('probes', {})
    deep = bool(case['opts'].get('deep_env'))
    if deep:
        probes['nested-event-paths'] = 1
    if case.get('alias'):
        probes['change-object-listed-twice'] = 1
    if run.budget_hit:
        return [V('C03', 'C03.no-termination', 'timeline', 'budget exceeded')]
    if run.exc is not None:
        return [V('C19', 'engine-exception', run.exc[1], 'op %d raised: %s' % (run.exc[0], run.exc[2][-800:]))]
    # merged events: equal times act as one
    merged = {}
    for t, ch in case['timeline']:
        merged.setdefault(t, {}).update(ch)
    events = sorted(merged.items())
    fired = set()
    expected_state = {}
    for p, vars_ in case['ports'].items():
        for v, d in vars_.items():
            expected_state[p + '.' + v] = d
    pending = None      # (apply-time known at APPLY of the timeline: we use rows instead)
    applied = {}        # variable -> value expected from events whose tick has been applied
    inflight = None
    private = set()
    for t, ch in events:
        for k in ch:
            pass
    last_tick_T = None
    for ev in run.log:
        k = ev['k']
        if k == 'NU' and ev['uid'].startswith('timeline'):
            clock = ((ev.get('view') or {}).get('global') or {}).get('time')
            due = [(t, ch) for t, ch in events if t <= clock and t not in fired]
            want = {}
            alts = {}
            for t, ch in due:
                fired.add(t)
                for kk, val in ch.items():
                    if kk in want and want[kk] != val:
                        alts.setdefault(kk, [want[kk]]).append(val)
                    want[kk] = val
            if len(due) > 1:
                probes['several-events-in-one-tick'] = probes.get('several-events-in-one-tick', 0) + 1
            if due:
                probes['event-fired'] = probes.get('event-fired', 0) + len(due)
            up = ev['update']
            got = {}
            for port in up:
                if port == 'global':
                    continue
                for var, spec in _vars(up, port, deep).items():
                    got[port + '.' + var] = spec
            if (up.get('global') or {}).get('time') != ev['ts']:
                return [V('C19', 'C19.clock', 'plain',
                          'the timeline advanced its clock by %r in an interval of %r' % (
                              (up.get('global') or {}).get('time'), ev['ts']), ev['seq'])]
            for kk, val in want.items():
                spec = got.get(kk)
                if spec is None:
                    return [V('C19', 'C19.event-dropped', _order_disc(case),
                              'tick at clock %r: the event(s) due (%r) set %s=%r, the update does not: %r' % (
                                  clock, [t for t, _ in due], kk, val, up), ev['seq'])]
                gv = spec.get('_value') if isinstance(spec, dict) else spec
                # several events due in one tick act in time order: the later one has the last word
                ok = values_equal(gv, val) and type(gv) == type(val)
                if not ok:
                    return [V('C19', 'C19.event-value', 'plain',
                              'tick at clock %r: %s should be set to %r, the update says %r' % (clock, kk, val, spec), ev['seq'])]
            for kk in got:
                if kk not in want:
                    return [V('C19', 'C19.event-unexpected', _order_disc(case),
                              'tick at clock %r sets %s=%r although no event due at this tick names it '
                              '(fired twice, or before its time)' % (clock, kk, got[kk]), ev['seq'])]
            inflight = dict(want)
            probes['tick-checked'] = probes.get('tick-checked', 0) + 1
        elif k == 'EMIT' and ev.get('table') == 'history':
            row = ev['row']
            snap = ev.get('snap') or {}
            # the timeline's own update is applied at the end of its interval: fold it in when
            # its clock (a state variable) shows the tick as done
            if inflight is not None:
                # applied iff the global clock variable moved
                pass
            state_now = {}
            for p, vars_ in case['ports'].items():
                for v in vars_:
                    state_now[p + '.' + v] = _vars(snap, p, deep).get(v)
            # every variable holds the default or the value of an event that has been handed out
            for kk, val in state_now.items():
                allowed = [expected_state[kk]]
                for t, ch in events:
                    if t in fired and kk in ch:
                        allowed.append(ch[kk])
                if not any(values_equal(val, a) and type(val) == type(a) for a in allowed):
                    return [V('C19', 'C19.row-value', 'plain',
                              'row at %r: %s=%r, which is neither its default nor the value of a due event (%r)' % (
                                  row.get('time'), kk, val, allowed), ev['seq'])]
    # at the end: everything whose tick was applied must be visible in the final state
    final = None
    for ev in reversed(run.log):
        if ev['k'] == 'EMIT' and ev.get('table') == 'history':
            final = ev
            break
    if final is not None:
        snap = final.get('snap') or {}
        clock_final = ((snap.get('global') or {}).get('time'))
        # events fired at ticks whose update has been applied: tick clock + its timestep <= final clock
        for t, ch in events:
            if t not in fired:
                continue
        # replay ticks to know which were applied
        applied_vals = {}
        for ev in run.log:
            if ev['k'] == 'NU' and ev['uid'].startswith('timeline'):
                clock = ((ev.get('view') or {}).get('global') or {}).get('time')
                if clock + ev['ts'] <= clock_final:
                    for port in ev['update']:
                        if port == 'global':
                            continue
                        for var, spec in _vars(ev['update'], port, deep).items():
                            applied_vals[port + '.' + var] = spec.get('_value') if isinstance(spec, dict) else spec
        for kk, val in applied_vals.items():
            p, v = kk.split('.')
            now = _vars(snap, p, deep).get(v)
            if not (values_equal(now, val) and type(now) == type(val)):
                # a later event may have overwritten it: accept any later fired value
                later_ok = any(values_equal(now, ch[kk]) for t, ch in events if t in fired and kk in ch)
                if not later_ok:
                    return [V('C19', 'C19.final-state', 'plain',
                              'at the end %s=%r although an applied timeline update set it to %r' % (kk, now, val))]
    # events that were due (time <= last tick clock) but never fired are caught above as dropped
    return []


def _order_disc(case):
    ts = [t for t, _ in case['timeline']]
    if ts != sorted(ts):
        return 'unsorted-listing'
    if len(set(ts)) != len(ts):
        return 'duplicate-times'
    return 'sorted-listing'


def evaluate(case, prop=None):
    validate(case)
    run = execute(case)
    stats = {}
    vs = check(case, run, stats)
    probes = stats.get('probes', {})
    final_T = run.log[-1]['T'] if run.log else 0
    return {
        'violations': vs, 'probes': probes,
        'nontrivial': bool(probes.get('event-fired')),
        'shape': kernel.shape_of(run.log) ^ hash_events(case), 'events': len(run.log),
        'sim_seconds': final_T, 'faults': {}, 'executions': 1, 'digest': run.digest,
    }


def hash_events(case):
    import hashlib
    h = hashlib.blake2b(repr([(t, sorted(ch)) for t, ch in case['timeline']]).encode(), digest_size=8)
    return int.from_bytes(h.digest(), 'big')
