#!/bin/bash
# Runs the repository's pinned suite (guard off: no hook exists) in parallel.
# Expected: 123 passed, 3 failed (large_experiment needs MongoDB) -- as in /root/.vp/BASELINE.json
cd /repo && exec /venv/bin/python -m pytest -q -p no:cacheprovider --timeout=900 -n 8 -x --deselect vivarium/experiments/large_experiment.py "$@"
