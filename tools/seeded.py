#!/venv/bin/python
"""Verify a seeded change delivered by a sub-agent and file it under
/verif/seeded/<id>/.

usage: seeded.py verify <src dir with patch.diff demo.py notes.md> <id> <property> [--checks C01,C02] [--runs N]
       seeded.py recheck [<id> ...]      re-run the checks against every filed change

Everything happens in a scratch git worktree of /repo under /dev/shm which is
removed afterwards; /repo itself is never modified."""
import json
import os
import shutil
import subprocess
import sys
import time

VERIF = os.path.dirname(os.path.dirname(os.path.abspath(__file__)))
PY = '/venv/bin/python'


def sh(cmd, cwd=None, env=None, timeout=3600):
    p = subprocess.run(cmd, cwd=cwd, env=env, capture_output=True, text=True, timeout=timeout)
    return p.returncode, p.stdout + p.stderr


def make_wt(tag):
    wt = '/dev/shm/verif-seeded-%s-%d' % (tag, os.getpid())
    if os.path.exists(wt):
        sh(['git', '-C', '/repo', 'worktree', 'remove', '--force', wt])
        shutil.rmtree(wt, ignore_errors=True)
    rc, out = sh(['git', '-C', '/repo', 'worktree', 'add', '--detach', wt, 'HEAD'])
    if rc:
        raise RuntimeError(out)
    return wt


def rm_wt(wt):
    sh(['git', '-C', '/repo', 'worktree', 'remove', '--force', wt])
    shutil.rmtree(wt, ignore_errors=True)
    sh(['git', '-C', '/repo', 'worktree', 'prune'])


def run_demo(wt, demo):
    env = dict(os.environ)
    env['PYTHONPATH'] = wt
    env['PYTHONDONTWRITEBYTECODE'] = '1'
    return sh([PY, '-W', 'ignore', demo], cwd=wt, env=env, timeout=300)


def run_suite(wt):
    env = dict(os.environ)
    env['PYTHONPATH'] = wt
    env['PYTHONDONTWRITEBYTECODE'] = '1'
    rc, out = sh([PY, '-m', 'pytest', '-q', '-p', 'no:cacheprovider', '--timeout=900', '-n', '8',
                  '--deselect', 'vivarium/experiments/large_experiment.py'], cwd=wt, env=env, timeout=1800)
    tail = [l for l in out.splitlines() if ' passed' in l or ' failed' in l]
    return rc, (tail[-1] if tail else out[-300:])


_SNAP = None


def snap():
    """A frozen copy of the machinery, so that /verif/dst can be edited while
    a verification is running."""
    global _SNAP
    if _SNAP is None:
        import atexit
        _SNAP = '/dev/shm/verif-snap-%d' % os.getpid()
        shutil.rmtree(_SNAP, ignore_errors=True)
        os.makedirs(_SNAP)
        for f in ('run', 'known_findings.json'):
            shutil.copy(os.path.join(VERIF, f), os.path.join(_SNAP, f))
        for d in ('dst', 'findings'):
            shutil.copytree(os.path.join(VERIF, d), os.path.join(_SNAP, d),
                            ignore=shutil.ignore_patterns('__pycache__'))
        atexit.register(shutil.rmtree, _SNAP, True)
    return _SNAP


def run_check(wt, prop, runs, tier=None):
    env = dict(os.environ)
    env['VERIF_REPO'] = wt
    cmd = [os.path.join(snap(), 'run'), 'check', prop, '--noevidence']
    if runs:
        cmd += ['--runs', str(runs)]
    else:
        cmd += ['--tier', tier or 'quick']
    t = time.time()
    rc, out = sh(cmd, env=env, timeout=7200)
    v = [l for l in out.splitlines() if l.startswith('violation:')]
    return rc, (v[0] if v else ''), round(time.time() - t, 1)


def verify(src, sid, prop, checks, runs):
    dst = os.path.join(VERIF, 'seeded', sid)
    wt = make_wt(sid)
    meta = {'id': sid, 'property': prop, 'source': 'independent sub-agent given only the property text',
            'ran': {}}
    try:
        patch = os.path.join(src, 'patch.diff')
        demo = os.path.join(src, 'demo.py')
        rc, out = run_demo(wt, demo)
        meta['ran']['demo_clean_rc'] = rc
        if rc != 0:
            print('demo fails on the clean tree:', out[-400:])
            return 1
        rc, out = sh(['git', 'apply', patch], cwd=wt)
        if rc:
            print('patch does not apply:', out)
            return 1
        rc, out = sh([PY, '-c', 'import vivarium'], cwd=wt, env=dict(os.environ, PYTHONPATH=wt))
        if rc:
            print('does not import:', out[-300:])
            return 1
        rc, tail = run_suite(wt)
        meta['ran']['suite_with_patch'] = tail
        print('suite with patch:', tail)
        if rc != 0 or '123 passed' not in tail:
            print('suite does not pass with the patch')
            return 1
        rc, out = run_demo(wt, demo)
        meta['ran']['demo_patched_rc'] = rc
        print('demo with patch rc=%d' % rc)
        if rc == 0:
            print('demo does not fail with the patch')
            return 1
        meta['checks'] = {}
        for c in checks:
            rc, v, dt = run_check(wt, c, runs)
            meta['checks'][c] = {'rc': rc, 'violation': v, 'wall_s': dt, 'runs': runs or 'quick tier'}
            print('check %s: rc=%d %s (%.1fs)' % (c, rc, v[:120], dt))
    finally:
        rm_wt(wt)
    os.makedirs(dst, exist_ok=True)
    for f in ('patch.diff', 'demo.py', 'notes.md'):
        if os.path.exists(os.path.join(src, f)):
            shutil.copy(os.path.join(src, f), os.path.join(dst, f))
    notes = open(os.path.join(dst, 'notes.md')).read() if os.path.exists(os.path.join(dst, 'notes.md')) else ''
    meta['needs'] = notes[:1500]
    meta['caught_by'] = sorted(c for c, r in meta['checks'].items() if r['rc'] == 1)
    with open(os.path.join(dst, 'meta.json'), 'w') as f:
        json.dump(meta, f, indent=1)
    print('filed %s: caught by %s' % (sid, meta['caught_by']))
    return 0


def recheck(ids, runs):
    base = os.path.join(VERIF, 'seeded')
    ids = ids or sorted(os.listdir(base))
    for sid in ids:
        d = os.path.join(base, sid)
        mp = os.path.join(d, 'meta.json')
        if not os.path.exists(mp):
            continue
        meta = json.load(open(mp))
        wt = make_wt(sid)
        try:
            rc, out = sh(['git', 'apply', os.path.join(d, 'patch.diff')], cwd=wt)
            if rc:
                print(sid, 'patch no longer applies')
                continue
            checks = list(meta.get('checks', {})) or [meta['property']]
            if meta['property'] not in checks:
                checks.append(meta['property'])
            for c in checks:
                rc, v, dt = run_check(wt, c, runs)
                meta.setdefault('checks', {})[c] = {'rc': rc, 'violation': v, 'wall_s': dt, 'runs': runs or 'quick tier'}
                print('%-14s %s rc=%d %s (%.1fs)' % (sid, c, rc, v[:100], dt))
        finally:
            rm_wt(wt)
        meta['caught_by'] = sorted(c for c, r in meta['checks'].items() if r['rc'] == 1)
        json.dump(meta, open(mp, 'w'), indent=1)


def main():
    a = sys.argv[1:]
    runs = None
    if '--runs' in a:
        i = a.index('--runs')
        runs = int(a[i + 1])
        del a[i:i + 2]
    checks = None
    if '--checks' in a:
        i = a.index('--checks')
        checks = a[i + 1].split(',')
        del a[i:i + 2]
    if a[0] == 'verify':
        src, sid, prop = a[1], a[2], a[3]
        return verify(src, sid, prop, checks or [prop], runs)
    if a[0] == 'recheck':
        return recheck(a[1:], runs)


if __name__ == '__main__':
    sys.exit(main() or 0)
