#!/bin/bash
# Runs the quick tier of every check under several VERIF_SEED values (false-alarm hunt on the unchanged tree).
cd "$(dirname "$0")/.."
for s in "$@"; do
  echo "#### VERIF_SEED=$s"
  VERIF_SEED=$s ./tools/run_all.sh quick 2>&1 | grep -E "^C[0-9]+:|VIOLATION|HARNESS|violation:" | cut -c1-240
done
