#!/bin/bash
# Offline setup: nothing to build or fetch. The checks import vivarium from /repo's working
# tree through /venv (editable install); this script only verifies that and creates output dirs.
set -e
HERE="$(cd "$(dirname "${BASH_SOURCE[0]}")/.." && pwd)"
mkdir -p "$HERE/evidence" "$HERE/replays"
PYTHONPATH="$HERE:/repo" PYTHONDONTWRITEBYTECODE=1 /venv/bin/python -W ignore -c "
import sys
assert sys.version_info[:2] >= (3, 12), 'sys.monitoring (PEP 669) needs Python 3.12'
import vivarium, networkx, numpy, pint
from dst import kernel, batch, shrink, main
print('setup ok: python', sys.version.split()[0])
"
