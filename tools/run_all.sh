#!/bin/bash
# Runs every registered check of a tier in sequence (rewrites evidence/). usage: run_all.sh quick|thorough
cd "$(dirname "$0")/.."
TIER="${1:-quick}"
rc=0
for p in $(/venv/bin/python -c "import json; print(' '.join(c['property_id'] for c in json.load(open('MANIFEST.json'))['checks']))"); do
  /usr/bin/time -f "$p %es" ./run check $p --tier $TIER 2>&1 | grep -E "^C[0-9]+|VIOLATION|KNOWN-FINDING|HARNESS|harness errors" | cut -c1-260
  [ "${PIPESTATUS[0]}" != "0" ] && rc=1
done
exit $rc
