#!/venv/bin/python
"""Regenerates /verif/MANIFEST.json from the table below (kept in one place so
that the manifest, the CLI and DESIGN.md do not drift)."""
import json
import os

HERE = os.path.dirname(os.path.dirname(os.path.abspath(__file__)))

LEVEL_TEXT = (
    'Seeded search over schedules, fault sequences and configurations in a deterministic '
    'simulator that runs the real engine/store code against scripted parties and checks the '
    'recorded history against a reference model; exploration, not proof. Right level because the '
    'property quantifies over schedules/histories that can only be sampled, and every failure '
    'comes with a minimised, exactly replayable case.')
NOTE = ('Trusted base: the scripted parties and reference model in /verif/dst, CPython 3.12, '
        'PYTHONHASHSEED=0. Sampling bounds: <=6 parties, <=32 simulated seconds, <=8 driver ops per run.')

CLAIMED = {
    'C01': ('kernel', 'deterministic simulation: seeded schedules + history oracle (segment algebra, state fold)', '5/C01'),
    'C02': ('kernel', 'deterministic simulation: seeded schedules + history oracle (interval/timestep algebra)', '5/C02'),
    'C03': ('kernel', 'deterministic simulation: clock-trace invariants + deterministic backward-jump budget for termination', '5/C03'),
    'C04': ('kernel', 'deterministic simulation: per-instant snapshot invariant over the event log + metamorphic re-run under seeded permutation of every listing order', '5/C04'),
    'C05': ('steps', 'deterministic simulation: phase grammar over the event log (random flow DAGs, derivers, steps deleting/generating compartments), token visibility per dependency edge', '5/C05'),
    'C06': ('wiring', 'deterministic simulation: generated schemas/topologies of every documented form; real store vs independent wiring resolver and state model at every event (read node == write node, frame condition)', '5/C06'),
    'C07': ('wiring', 'deterministic simulation: states argument of every callback vs projection of the model hierarchy through the independent resolver (exact shape)', '5/C07'),
    'C08': ('wiring', 'deterministic simulation: state refinement against model updaters folded in observed application order; update-object immutability probe', '5/C08'),
    'C15': ('wiring', 'deterministic simulation: state right after every construction vs model initial state (explicit values, defaults, glob children); Composite.initial_state/default_state vs resolver', '5/C15'),
    'C09': ('struct', 'deterministic simulation: seeded structural histories by reactive actor parties; real hierarchy vs reference hierarchy after every applied update (values, shape, node identity)', '5/C09'),
    'C10': ('struct', 'deterministic simulation: live-set bookkeeping over the event log, published composite vs store vs model, restart differential at quiescent points', '5/C10'),
    'C11': ('struct', 'deterministic simulation: divider laws checked at every division of a seeded history (both outcomes of the random dividers), daughter independence via the frame condition', '5/C11'),
    'C13': ('parallel', 'deterministic simulation: real ParallelProcess/_handle_parallel_process over a simulated pipe+worker transport with a seeded scheduler; serial/parallel differential, protocol and shutdown oracles over the transport log, seeded stop points', '5/C13'),
    'C19': ('timeline', 'deterministic simulation: the real TimelineProcess under seeded timelines, timesteps and driver interrupts; timer model over the recorded updates and emitted rows', '5/C19'),
    'C16': ('composite', 'deterministic simulation (operation history + entry-point differential): seeded generate/merge histories on shared composites vs a plain-union reference after every operation; one composite run through all three engine entry points, at the root and embedded', '5/C16'),
    'C12': ('kernel', 'deterministic simulation: recording emitter vs state snapshots and batch times; emit_step differential', '5/C12'),
}

NOT_APPLICABLE = {
    'C14': 'serialize_value/deserialize_value are pure functions of one value tree: no schedule, clock, fault or interleaving can change the answer, so a simulator would only be an input generator in disguise',
    'C17': 'path helpers and Store.get_path/path_to/path_for are pure functions of (tree, path); nothing to schedule or fault',
    'C18': 'timeseries/query accessors are pure functions of the already recorded saved_data; the history that produced it is irrelevant to them',
}

PENDING = {}


def main():
    props = [json.loads(l) for l in open(os.path.join(HERE, 'properties.jsonl'))]
    checks = []
    na = []
    for p in props:
        pid = p['id']
        if pid in CLAIMED:
            engine, tech, ref = CLAIMED[pid]
            checks.append({
                'property_id': pid,
                'quick_cmd': './run check %s --tier quick' % pid,
                'thorough_cmd': './run check %s --tier thorough' % pid,
                'evidence_file': 'evidence/%s.json' % pid,
                'replay_cmd_template': './run replay {path}',
                'engine': 'dst',
                'level_claimed': {'category': 'exploration', 'text': LEVEL_TEXT,
                                  'design_ref': 'DESIGN.md section ' + ref},
                'level_note': NOTE,
                'technique': tech,
            })
        elif pid in NOT_APPLICABLE:
            na.append({'property_id': pid, 'reason': NOT_APPLICABLE[pid]})
        else:
            na.append({'property_id': pid, 'reason': PENDING.get(
                pid, 'check not built yet (planned in DESIGN.md section 5); not claimed until it exists')})
    manifest = {
        'version': 1,
        'setup_cmd': './tools/setup.sh',
        'hooks': {
            'guard': 'VIVARIUM_CORE_VERIF',
            'enable': 'no hook exists: every seam is a public extension point (Process/Step subclasses, updater/emitter registries, multiprocessing context); checks import /repo sources directly',
            'baseline_off_cmd': 'cd /repo && /venv/bin/python -m pytest -ra -q -p no:cacheprovider --timeout=900 --continue-on-collection-errors',
            'source_commits': [],
            'add_only': True,
        },
        'engines': [{
            'name': 'dst', 'path': 'dst/',
            'serves_properties': sorted(CLAIMED),
            'kind_free_text': 'deterministic simulation with fault injection: seeded case generator, real engine under scripted parties, simulated worker transport, history oracles, shrinker, replay',
        }],
        'checks': checks,
        'not_applicable': na,
        'notes': 'Genuine defects found are listed in known_findings.json (fixed ones as "fix:" commits in /repo). See DESIGN.md.',
    }
    with open(os.path.join(HERE, 'MANIFEST.json'), 'w') as f:
        json.dump(manifest, f, indent=1)
    print('wrote MANIFEST.json: %d checks, %d not applicable' % (len(checks), len(na)))


if __name__ == '__main__':
    main()
